#!/usr/bin/env python3
"""Writes /verif/MANIFEST.json from the table below (single source of truth for the claimed checks)."""
import json, subprocess, os

HERE = os.path.dirname(os.path.abspath(__file__))

def hooks_commits():
    try:
        out = subprocess.check_output(["git", "-C", "/repo", "log", "--format=%H %s"], text=True)
        return [l.split()[0] for l in out.splitlines() if "verif hook" in l]
    except Exception:
        return []

TECH = "deterministic simulation with fault injection (seeded search over "

CLAIMED = {
 "C01": dict(level="exploration", technique=TECH + "frameworks x configurations x SAT-oracle behaviours, RefSem oracle)",
   text="Seeded sampling of frameworks (<= 9 arguments, all construction routes incl. sparse ids and duplicate attack lines) x 7 semantics x every selectable encoder, each solved under a simulated SAT backend that returns arbitrary legal models (policies Uniform/MinTrue/MaxTrue/Biased/CaDiCaL): the returned set must be an extension by the brute-force reference semantics, given in the caller's arguments without duplicates; 'none' only for ST without stable extension. Exploration, not proof: the SAT-dependent chains (PR/SST/STG/ID) have far more paths than the one CaDiCaL shows the unit tests.",
   note="Trusted: RefSem (cross-checked against a labelling-based twin in selftest), SimSat soundness (every verdict cross-checked against real CaDiCaL; disagreement = exit 2). Bounded to small frameworks.", ref="DESIGN.md 5/C01"),
 "C02": dict(level="exploration", technique=TECH + "frameworks x configurations x SAT-oracle behaviours, RefSem oracle)",
   text="As C01 for is_credulously_accepted on every argument of each sampled framework, all 7 semantics and encoders, under adversarial model choices of the simulated SAT backend; status must equal RefSem (incl. NO for all when no stable extension).", note="as C01", ref="DESIGN.md 5/C02"),
 "C03": dict(level="exploration", technique=TECH + "frameworks x configurations x SAT-oracle behaviours, RefSem oracle)",
   text="As C02 for is_skeptically_accepted; the three oracle-dependent exits of the PR counter-example search are reached on the same graph by varying the oracle policy.", note="as C01", ref="DESIGN.md 5/C03"),
 "C04": dict(level="exploration", technique=TECH + "frameworks x configurations x SAT-oracle behaviours, RefSem oracle)",
   text="The *_with_certificate entry points on every argument, half of the frameworks with several components and/or sparse ids: certificate present exactly when promised, is an extension of the right semantics (CO for DC-PR), contains / omits the argument, members carry the framework's own label and id, no duplicates.", note="as C01", ref="DESIGN.md 5/C04"),
 "C05": dict(level="exploration", technique="deterministic simulation with fault injection at the process boundary (seeded invocations of the real binaries with injected environment faults: missing/directory/dangling/truncated instance file, failing stdout, malformed arguments; RefSem and reference parsers as oracle)",
   text="Each run is one real process of crustabri solve / crustabri_iccma23 (built from the working tree, guard off) on a seeded invocation: instance text (both formats, ill-formed and bit-flipped variants), the 21 problems in random case and invalid strings, valid/unknown/missing/superfluous argument, reader/encoding/certificate/logging options, optionally a real external solver process (fakesat), and an environment fault (instance path missing / directory / dangling symlink / truncated; stdout = /dev/full or closed pipe). Valid invocations must exit 0 with exactly the status/witness lines that RefSem accepts; usage/input errors must exit non-zero without an answer line; --problems must list exactly what is accepted, case-insensitively.", note="Black-box: scheduling inside the process is not controlled (C16 covers exec_solver). Permission-denied cannot be produced as root. 60 s watchdog.", ref="DESIGN.md 5/C05"),
 "C06": dict(level="exploration", technique=TECH + "query histories on one solver object replayed under alternative configurations: encoder x SAT backend (SimSat seeds, real CaDiCaL, real DIMACS writer/parser over a simulated solver program) x certificate flag x query order; differential + RefSem oracle)",
   text="One history of 6-24 queries applied to one solver object per configuration and re-applied under 2-4 alternative configurations (other encoder, other backend incl. the real BufferedSatSolver over a simulated solver with seeded legal reply layouts, flipped certificate flags, reversed/shuffled order, fresh objects): statuses must agree position by position and with RefSem; the framework snapshot must be unchanged.", note="The external backend is in-process here (real DIMACS writer/parser, simulated solver program); the process path is C16.", ref="DESIGN.md 5/C06"),
 "C07": dict(level="exploration", technique=TECH + "argument lists x frameworks x SAT-oracle behaviours, RefSem oracle)",
   text="Lists of 1-3 arguments (repetitions, same/different components) through are_*_accepted[_with_certificate] of all static solvers; status = disjunction per RefSem, with/without certificate agree, certificate valid for the disjunction.", note="as C01", ref="DESIGN.md 5/C07"),
 "C08": dict(level="exploration", technique=TECH + "update/query histories x SAT-oracle behaviours on the six dynamic solvers, lock-step RefStore + RefSem oracle)",
   text="Generated operation histories (valid updates incl. re-adding removed labels, queries with/without certificate, swarm weights hitting the answer cache, slot exhaustion/re-encoding, shrink-and-regrow) against all six dynamic solver kinds and every reservation factor, under a simulated SAT backend whose arbitrary models decide what the caches hold; every answer and certificate is checked against brute-force semantics of the lock-step set model.", note="Trusted: RefStore/RefSem; certificate members judged by label. <= 7 live arguments, histories <= 63 steps.", ref="DESIGN.md 5/C08"),
 "C09": dict(level="exploration", technique=TECH + "histories with an injected stream of redundant/invalid updates, lock-step RefStore + RefSem oracle, liveness after faults stop)",
   text="C08 histories plus a fault stream of redundant and invalid updates placed preferentially right after un-flushed updates: the update call itself must return Err (invalid) / Ok (redundant), the model is unchanged, all later answers match the unchanged model, no panic, and >= 3 fault-free queries at the end must be served (usable once faults stop).", note="as C08", ref="DESIGN.md 5/C09"),
 "C10": dict(level="exploration", technique=TECH + "encoder-object reuse histories x frameworks, CNF recorded at the SatSolver seam; per case an exhaustive 2^n refinement check against RefSem)",
   text="Weak fit, stated in DESIGN.md: the CNF is a function of (framework, encoder). The simulator contributes the recording backend at the seam the property names and the encoder-object history (one encoder object encodes 0-2 other frameworks first, as solvers do per component/query - this matters for the hybrid encoder's RefCell tables). Per case the check is exhaustive over all 2^n argument subsets in both directions, plus range reachability/exclusion, arg_to_lit injectivity and assignment_to_extension round trip; cases are sampled (all encoders incl. the two public factory functions, both sides of the hybrid threshold).", note="Frameworks <= 8 arguments with compact ids.", ref="DESIGN.md 5/C10"),
 "C11": dict(level="exploration", technique="deterministic simulation with fault injection (differential runs of one framework under several presentations, each solved under a different seeded SAT-oracle behaviour - real CaDiCaL steered by seeded assumptions; polynomial validity checks and statuses settled by the grounded extension as absolute oracle; sample through the real binaries)",
   text="Frameworks of 20-300 arguments (no reference semantics possible) are read through the real reader in 3-5 presentations (renamed/reordered arguments, shuffled/duplicated attack lines, disjoint unions with pooled components with and without stable extension); all DC/DS/SE problems are run on each presentation under a DIFFERENT simulated SAT-backend behaviour. Statuses must coincide (with the stated ST exception), GR within ID within every returned PR extension, DC-CO = DC-PR, skeptical implies credulous when an extension exists, ST/SST/STG coincide when a stable extension exists, returned sets pass the polynomial checks. Fair fit only (see DESIGN.md): what the simulator adds is that a status depending on which model came back is caught.", note="Differential oracle; SAT-call budget per query is deterministic, over-budget queries are counted as skipped.", ref="DESIGN.md 5/C11"),
 "C12": dict(level="exploration", technique=TECH + "operation histories incl. invalid/redundant operations, set-model refinement after every step)",
   text="Seeded update histories (3-80 operations over 1-8 labels, usize and String, invalid and redundant operations included) on AAFramework, compared after EVERY operation with a trivial set model on all public observables (counts, id order, lookups, three attack iterators, grounded extension, id stability, Err for invalid operations).", note="Trusted: RefStore set model. Sampling of histories; universes of at most 8 labels.", ref="DESIGN.md 5/C12"),
 "C13": dict(level="fault_enumeration", technique="deterministic simulation with fault injection (per generated text, enumeration of stream faults at every byte offset - EOF, hard read error, flipped bit - plus seeded chunkings with EINTR through a faulty Read seam; two independent reference parsers as oracle)",
   text="Texts of both grammars (well-formed with all listed layout variations, ill-formed of each listed class, token/byte corruptions) are delivered through a faulty stream; per text the faults are ENUMERATED at every offset (EOF = truncated file, hard error, one flipped bit), each also chunked with EINTR. The reader must never panic, must return Err on a hard error, must agree with the reference parser's verdict on the bytes actually delivered (exact framework for well-formed, Err for listed ill-formed classes, totality only where the spec is silent), and must be independent of the delivery schedule.", note="Trusted: RefIccma/RefApx; 'Unspecified' inputs only assert totality. Texts are small (<= ~300 bytes).", ref="DESIGN.md 5/C13"),
 "C14": dict(level="fault_enumeration", technique="deterministic simulation with fault injection (frameworks from update histories written through a faulty Write seam: hard error / zero write at every byte offset, failing flush, short writes with EINTR; read-back through a faulty Read seam; reference parsers for the file and answer grammars)",
   text="Frameworks produced by update histories (tombstones present) are written by AspartixWriter and read back (reference parser and real reader over a chunked stream): same labels, order and attack set; extension lines of both response writers parse by independent answer grammars to exactly the written labels; statuses are exactly YES/NO lines. Per write operation the write faults are ENUMERATED at every byte offset: the call must return Err, never panic, and emit only a prefix of the fault-free output; short writes/EINTR are transparent.", note="Labels restricted to valid Aspartix identifiers as the property states.", ref="DESIGN.md 5/C14"),
 "C15": dict(level="exploration", technique=TECH + "operation histories on SAT solver objects in lock-step (real CaDiCaL, real DIMACS writer/parser over a simulated solver program with seeded reply layouts), truth-table reference)",
   text="Histories of add_clause/reserve/solve/solve_under_assumptions (empty, unit, tautological clauses, unused reserved variables, assumptions on unseen variables, unconstrained solve right after an assumption solve) applied in lock-step to CadicalSolver and to BufferedSatSolver over SimChild; every verdict and model is checked against a truth table (<= 12 variables), value_of must be answerable for every declared variable.", note="ExternalSatSolver = BufferedSatSolver + exec_solver; exec_solver itself is covered by C16.", ref="DESIGN.md 5/C15"),
 "C16": dict(level="exploration", technique=TECH + "argumentation workloads over the real DIMACS writer with a strict validator inside the simulated solver program; schedules of feeder thread / child / reader on a simulated process-and-pipe seam; real-OS cross-check)",
   text="Part 1: every DIMACS instance that the static and dynamic argumentation workloads hand to the external program is validated strictly (header variable and clause counts, termination, nothing else). Parts 2-3 (schedule exploration of exec_solver on the simulated pipe seam, real OS pipes) are reported under coverage.extra when built.", note="Strict DIMACS CNF reader as judge.", ref="DESIGN.md 5/C16"),
 "C17": dict(level="fault_enumeration", technique="deterministic simulation with fault injection (enumeration of SAT-call position x fault kind per sampled static query and per sampled update/query history on the dynamic solvers, at the SatSolver trait and through the real DIMACS reply parser; sample through the real binaries with a faulty solver program)",
   text="For each sampled query: fault-free dry run, then the query is re-run once per (SAT-call position, fault kind) with the backend failing there (Unknown at trait level; 8 reply-fault kinds through the real BufferedSatSolver parser); the query must unwind, never return a status/extension. Complete over positions x kinds per case (<= 24 positions), sampled over cases.", note="Trusted: 'unwind = abort' reading of the library contract; prefix identity with the dry run is checked by digest.", ref="DESIGN.md 5/C17"),
 "C18": dict(level="exploration", technique=TECH + "adversarial SAT-oracle policies, post-hoc check of the recorded SAT-call history against RefSem cardinalities, hard step budget)",
   text="Bounded liveness in steps (= SAT calls seen by the counting simulated backend): per solver instance calls <= the property's bound for a component, total <= sum of bounds, no candidate returned twice within one PR/ID search; a hard budget turns non-termination into a finite replayable failure. Adversarial oracle policies (MinTrue longest chains).", note="Instance-to-component attribution is conservative (max / sum of per-component bounds).", ref="DESIGN.md 5/C18"),
}

NOT_YET = {}

NA = {
 "C19": "EquivalencyComputer::new is a pure function of one immutable framework: no SAT oracle, stream, process, schedule, fault or history for a simulator to vary; deciding it is input enumeration (a different technique family).",
}

def main():
    props = [json.loads(l)["id"] for l in open(os.path.join(HERE, "properties.jsonl"))]
    checks = []
    for pid in props:
        if pid in CLAIMED:
            c = CLAIMED[pid]
            checks.append({
                "property_id": pid,
                "quick_cmd": "./check %s quick" % pid,
                "thorough_cmd": "./check %s thorough" % pid,
                "evidence_file": "/verif/evidence/%s.json" % pid,
                "replay_cmd_template": "./check replay {path}",
                "engine": "crustasim",
                "level_claimed": {"category": c["level"], "text": c["text"], "design_ref": c["ref"]},
                "level_note": c["note"],
                "technique": c["technique"],
            })
    na = []
    for pid in props:
        if pid in CLAIMED:
            continue
        if pid in NA:
            na.append({"property_id": pid, "reason": NA[pid]})
        else:
            na.append({"property_id": pid, "reason": NOT_YET.get(pid, "check not built yet in this round (planned, see DESIGN.md section 5); not claimed until it runs")})
    m = {
        "version": 1,
        "setup_cmd": "./check build && ./check selftest",
        "hooks": {
            "guard": "crustabri_verif",
            "enable": "rustc --cfg crustabri_verif (and --cfg crustabri_verif_proc for the process seam), emitted only by /verif/sim/shadow/build.rs; the shadow package compiles /repo/src/lib.rs (current working tree) under the package name crustabri; /repo/Cargo.toml and Cargo.lock are untouched",
            "baseline_off_cmd": "cd /repo && cargo test --workspace --no-fail-fast --offline",
            "source_commits": hooks_commits(),
            "add_only": True,
        },
        "engines": [{
            "name": "crustasim",
            "path": "/verif/sim",
            "serves_properties": sorted(CLAIMED.keys()),
            "kind_free_text": "deterministic simulator: one seed -> one run; simulated SAT backend (SimSat), simulated external solver (SimChild), faulty byte streams, shuttle-scheduled process/pipe seam; reference models RefSem/RefStore; minimiser + replay files",
        }],
        "checks": checks,
        "not_applicable": na,
        "notes": "All checks: exit 0 = held on everything explored; exit 1 + 'VIOLATION property=<id> replay=<path>' = violation (replay with ./check replay <path>); exit 2 = harness error (never a VIOLATION line). VERIF_SEED (default 20260926) decides every run; VERIF_TIER is honoured. Known findings: /verif/known_findings.json.",
    }
    json.dump(m, open(os.path.join(HERE, "MANIFEST.json"), "w"), indent=1)
    print("claimed:", sorted(CLAIMED.keys()), "not claimed:", [x["property_id"] for x in na])

main()
