#!/bin/bash
# Development aid (not a registered check): line coverage of /repo/src under a tenth of the quick tier.
# Builds instrumented copies of crustasim, the proc engine and the real binaries with the nightly
# toolchain into a scratch directory (default /tmp/v/cov), runs every property, prints llvm-cov's
# per-file table restricted to /repo/src. Remove the scratch directory afterwards.
set -u
S="${1:-/tmp/v/cov}"
T=$(ls -d ~/.rustup/toolchains/nightly-x86_64-unknown-linux-gnu/lib/rustlib/*/bin | head -1)
export CARGO_NET_OFFLINE=true RUSTFLAGS="-C instrument-coverage"
mkdir -p "$S/prof" "$S/out" && rsync -a --exclude 'target*' --exclude scratch /verif/sim/ "$S/sim/" || exit 2
( cd "$S/sim" && cargo +nightly build --release --offline --target-dir "$S/target" && cargo +nightly build --release --offline --features proc --target-dir "$S/target-proc" ) > "$S/build.log" 2>&1 || { echo "build failed, see $S/build.log"; exit 2; }
( cd /repo && cargo +nightly build --release --offline --target-dir "$S/bins" ) >> "$S/build.log" 2>&1 || exit 2
unset RUSTFLAGS
cp /verif/known_findings.json "$S/out/"
export VERIF_DIR="$S/out" VERIF_REPO=/repo VERIF_PROC_BIN="$S/target-proc/release/crustasim" VERIF_BINS_DIR="$S/bins/release" VERIF_FAKESAT="$S/target/release/fakesat" LLVM_PROFILE_FILE="$S/prof/cov-%8m.profraw" VERIF_UNSUPERVISED=1
declare -A R=([C01]=200000 [C02]=150000 [C03]=150000 [C04]=120000 [C05]=1500 [C06]=20000 [C07]=200000 [C08]=120000 [C09]=120000 [C10]=400000 [C11]=100 [C12]=400000 [C13]=10000 [C14]=300000 [C15]=120000 [C16]=40000 [C17]=30000 [C18]=200000)
for id in C01 C02 C03 C04 C05 C06 C07 C08 C09 C10 C11 C12 C13 C14 C15 C16 C17 C18; do
    ( cd "$S/sim" && "$S/target/release/crustasim" run $id --runs ${R[$id]} --no-evidence 2>&1 | grep -E "exit=" | cut -c1-140 )
done
"$T/llvm-profdata" merge -sparse "$S"/prof/*.profraw -o "$S/cov.profdata"
"$T/llvm-cov" report -instr-profile "$S/cov.profdata" "$S/target/release/crustasim" -object "$S/bins/release/crustabri" -object "$S/bins/release/crustabri_iccma23" -object "$S/target-proc/release/crustasim" --sources $(find /repo/src -name '*.rs') 2>/dev/null | awk '{printf "%-80s %8s %8s %8s\n", $1, $8, $9, $10}'
echo "uncovered lines of one file: $T/llvm-cov show -instr-profile $S/cov.profdata $S/target/release/crustasim -object … --sources /repo/src/<file> | grep -E '^ +[0-9]+\| +0\|'"
