#!/usr/bin/env python3
"""Regenerates shadow/Cargo.toml from /repo/Cargo.toml: same package name and
dependencies, library source = /repo/src/lib.rs (current working tree), build script
that switches the verification cfg on.  /repo/Cargo.toml itself is never touched."""
import re, sys, os
repo = os.environ.get("VERIF_REPO", "/repo")
src = open(os.path.join(repo, "Cargo.toml")).read()
# keep [package] and [dependencies]; drop [[bin]], [lib], [dev-dependencies]
sections = re.split(r'(?m)^(?=\[)', src)
keep = []
for s in sections:
    head = s.split('\n', 1)[0].strip()
    if head.startswith('[package]'):
        s = re.sub(r'(?m)^default-run\s*=.*\n', '', s)
        s = s.rstrip('\n') + '\nbuild = "build.rs"\nautobins = false\nautotests = false\nautoexamples = false\nautobenches = false\n\n'
        keep.append(s)
    elif head.startswith('[dependencies'):
        keep.append(s)
    elif head.startswith('[features') or head.startswith('[target') or head.startswith('[build-dependencies'):
        keep.append(s)
out = ''.join(keep)
out += '\n[lib]\nname = "crustabri"\npath = "%s/src/lib.rs"\n' % repo
if os.path.isdir(os.path.join(os.path.dirname(os.path.abspath(__file__)), "seams")):
    out = out.replace('[dependencies]\n', '[dependencies]\nverif_seams = { path = "../seams", optional = true }\n', 1)
    if '[features]' in out:
        out = out.replace('[features]\n', '[features]\nproc = ["dep:verif_seams"]\n', 1)
    else:
        out += '\n[features]\nproc = ["dep:verif_seams"]\n'
dst = os.path.join(os.path.dirname(os.path.abspath(__file__)), "shadow", "Cargo.toml")
old = open(dst).read() if os.path.exists(dst) else None
if old != out:
    open(dst, "w").write(out)
