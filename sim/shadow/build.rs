// Shadow build of crustabri: same sources (/repo/src, current working tree), verification cfg on.
fn main() {
    println!("cargo:rustc-cfg=crustabri_verif");
    if std::env::var_os("CARGO_FEATURE_PROC").is_some() {
        println!("cargo:rustc-cfg=crustabri_verif_proc");
    }
    println!("cargo:rerun-if-changed=build.rs");
}
