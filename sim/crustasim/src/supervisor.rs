//! Supervisor: the batch itself runs in a child process (`VERIF_CHILD=1`) under an address-space
//! limit, with a heartbeat file in which every worker records the index of the run it is
//! executing. If the child dies abnormally (signal, out of memory, exit status outside 0/1/2) or
//! makes no progress for a long time, the runs that were in flight are re-executed one by one in
//! fresh children under a timeout; those that crash or do not terminate are reported as
//! VIOLATIONs with a replay file. A run that kills or hangs the process is thus a finding, never a
//! silent harness failure.

use crate::framework::{self, Property, Tier, Violation};
use crate::prng::{derive, Digest};
use std::io::Read;
use std::os::unix::fs::FileExt;
use std::process::{Command, Stdio};
use std::time::{Duration, Instant};

pub const MEM_LIMIT_KB: u64 = 28 * 1024 * 1024;
pub const STALL_SECS: u64 = 240;
pub const SINGLE_RUN_SECS: u64 = 60;
pub const SINGLE_RUN_MEM_KB: u64 = 3 * 1024 * 1024;

pub fn is_child() -> bool {
    std::env::var_os("VERIF_CHILD").is_some()
}

pub struct Heartbeat {
    file: Option<std::fs::File>,
}

impl Heartbeat {
    pub fn open() -> Self {
        let file = std::env::var("VERIF_HEARTBEAT").ok().and_then(|p| std::fs::OpenOptions::new().write(true).open(p).ok());
        Heartbeat { file }
    }
    /// worker `w` is about to execute run `i` (i + 1 is stored; 0 = idle)
    pub fn beat(&self, w: usize, i: u64) {
        if let Some(f) = &self.file {
            let _ = f.write_at(&(i + 1).to_le_bytes(), (w * 8) as u64);
        }
    }
    pub fn idle(&self, w: usize) {
        if let Some(f) = &self.file {
            let _ = f.write_at(&0u64.to_le_bytes(), (w * 8) as u64);
        }
    }
}

fn read_slots(path: &str, workers: usize) -> Vec<u64> {
    let mut v = vec![0u64; workers];
    if let Ok(mut f) = std::fs::File::open(path) {
        let mut buf = vec![];
        let _ = f.read_to_end(&mut buf);
        for w in 0..workers {
            if buf.len() >= (w + 1) * 8 {
                v[w] = u64::from_le_bytes(buf[w * 8..w * 8 + 8].try_into().unwrap());
            }
        }
    }
    v
}

fn read_heartbeat(path: &str, workers: usize) -> Vec<u64> {
    let mut v = vec![];
    if let Ok(mut f) = std::fs::File::open(path) {
        let mut buf = vec![];
        let _ = f.read_to_end(&mut buf);
        for w in 0..workers {
            if buf.len() >= (w + 1) * 8 {
                let x = u64::from_le_bytes(buf[w * 8..w * 8 + 8].try_into().unwrap());
                if x > 0 {
                    v.push(x - 1);
                }
            }
        }
    }
    v.sort();
    v.dedup();
    v
}

fn spawn_limited(args: &[String], envs: &[(&str, String)], mem_kb: u64) -> std::io::Result<std::process::Child> {
    let exe = std::env::current_exe()?;
    let mut script = format!("ulimit -S -v {} 2>/dev/null; exec \"$0\" \"$@\"", mem_kb);
    // the shuttle engine leaks the (mostly untouched) stacks of the tasks of a deadlocked execution:
    // an address-space limit would kill it after a few thousand detected deadlocks
    if std::env::var_os("VERIF_NO_MEMLIMIT").is_some() || cfg!(feature = "proc") {
        script = "exec \"$0\" \"$@\"".to_string();
    }
    let mut c = Command::new("sh");
    c.arg("-c").arg(script).arg(exe).args(args).env("VERIF_CHILD", "1").stdin(Stdio::null());
    for (k, v) in envs {
        c.env(k, v);
    }
    c.spawn()
}

/// Runs `crustasim <args>` as a supervised child; returns its exit code, or None when it crashed,
/// was killed, or stalled (then `stalled` is set).
fn supervise(args: &[String], hb_path: &str, workers: usize, stall: Duration, total: Option<Duration>) -> (Option<i32>, bool) {
    let mem = if total.is_some() { SINGLE_RUN_MEM_KB } else { MEM_LIMIT_KB };
    let _ = std::fs::write(hb_path, vec![0u8; workers.max(1) * 8]);
    let mut child = match spawn_limited(args, &[("VERIF_HEARTBEAT", hb_path.to_string())], mem) {
        Ok(c) => c,
        Err(e) => {
            println!("HARNESS-ERROR: cannot spawn the batch process: {}", e);
            return (Some(2), false);
        }
    };
    let start = Instant::now();
    // per worker: (slot value, since when); a stall = a worker sitting on the same run for too long
    let mut seen: Vec<(u64, Instant)> = vec![(0, Instant::now()); workers.max(1)];
    loop {
        match child.try_wait() {
            Ok(Some(st)) => return (st.code(), false),
            Ok(None) => {}
            Err(_) => return (None, false),
        }
        std::thread::sleep(Duration::from_millis(50));
        let slots = read_slots(hb_path, workers.max(1));
        let mut stalled = false;
        for (w, v) in slots.iter().enumerate() {
            if seen[w].0 != *v {
                seen[w] = (*v, Instant::now());
            } else if *v != 0 && seen[w].1.elapsed() > stall {
                stalled = true;
            }
        }
        let over_total = total.map(|t| start.elapsed() > t).unwrap_or(false);
        if stalled || over_total {
            let _ = child.kill();
            let _ = child.wait();
            return (None, true);
        }
    }
}

/// Entry point of `crustasim run` in the parent process.
pub fn run_supervised(p: &dyn Property, args: &[String], seed: u64, tier: Tier, workers: usize) -> i32 {
    let dir = crate::cli::scratch_dir("hb");
    let hb_path = dir.join("heartbeat").to_string_lossy().to_string();
    let (code, stalled) = supervise(&args[1..], &hb_path, workers, Duration::from_secs(STALL_SECS), None);
    let in_flight = read_heartbeat(&hb_path, workers);
    let _ = std::fs::remove_dir_all(&dir);
    match code {
        Some(c @ 0..=2) => return c,
        _ => {}
    }
    println!(
        "crustasim: the batch process {} (exit {:?}); re-executing the {} run(s) that were in flight, one process each",
        if stalled { "made no progress and was killed" } else { "died abnormally" },
        code,
        in_flight.len()
    );
    let mut exit = 2;
    let mut found = 0;
    for i in in_flight {
        let rs = derive(seed, p.id(), i);
        let a: Vec<String> = vec!["exec-run".into(), p.id().into(), "--index".into(), i.to_string(), "--seed".into(), seed.to_string(), "--tier".into(), tier.name().into()];
        let d2 = crate::cli::scratch_dir("hb1");
        let hb2 = d2.join("heartbeat").to_string_lossy().to_string();
        let (c, st) = supervise(&a, &hb2, 1, Duration::from_secs(SINGLE_RUN_SECS), Some(Duration::from_secs(SINGLE_RUN_SECS)));
        let _ = std::fs::remove_dir_all(&d2);
        if matches!(c, Some(0..=2)) {
            continue;
        }
        let case = p.gen(rs, tier);
        let what = if st { format!("does not terminate within {} s", SINGLE_RUN_SECS) } else { format!("kills the process (exit {:?}; e.g. out of memory under the {} GB limit of a single run, stack overflow, abort)", c, SINGLE_RUN_MEM_KB / 1024 / 1024) };
        let v = Violation::new(p.id(), "crash-or-nontermination", format!("run {} of the batch {}", i, what));
        let path = framework::write_replay(&framework::verif_dir(), p.id(), p.replay_tag(), seed, i, rs, &v, &case, &case, 0, &Digest::default());
        println!("violation: {} :: {}", v.key(), v.msg);
        println!("VIOLATION property={} replay={}", p.id(), path);
        exit = 1;
        found += 1;
    }
    if found == 0 {
        println!("HARNESS-ERROR: the batch process failed (exit {:?}, stalled: {}) but no single in-flight run reproduces it", code, stalled);
    }
    exit
}

/// `crustasim replay <file>` in the parent: a replay that crashes or hangs reproduces a
/// crash-or-nontermination finding.
pub fn replay_supervised(args: &[String], path: &str) -> i32 {
    let d = crate::cli::scratch_dir("hbr");
    let hb = d.join("heartbeat").to_string_lossy().to_string();
    let (c, st) = supervise(&args[1..], &hb, 1, Duration::from_secs(SINGLE_RUN_SECS), Some(Duration::from_secs(SINGLE_RUN_SECS)));
    let _ = std::fs::remove_dir_all(&d);
    if let Some(c @ 0..=2) = c {
        return c;
    }
    let recorded = std::fs::read_to_string(path).ok().and_then(|t| serde_json::from_str::<serde_json::Value>(&t).ok());
    let class = recorded.as_ref().and_then(|d| d["class"].as_str().map(|s| s.to_string())).unwrap_or_default();
    let prop = recorded.as_ref().and_then(|d| d["property"].as_str().map(|s| s.to_string())).unwrap_or_default();
    println!("replay: the replayed run {} (exit {:?})", if st { "does not terminate" } else { "kills the process" }, c);
    if class.ends_with("crash-or-nontermination") {
        println!("VIOLATION property={} replay={}", prop, path);
        1
    } else {
        println!("HARNESS-ERROR: replay crashed although the recorded class is {}", class);
        2
    }
}
