//! RefSem: Dung semantics by brute force over bitmasks (n <= 16). Written from the textbook
//! definitions without reference to how crustabri computes the same notions.
//! `twin` is a second, labelling-based formulation used by the self-test only.

#[derive(Clone, Copy, Debug, PartialEq, Eq, Hash, serde::Serialize, serde::Deserialize, PartialOrd, Ord)]
pub enum Sem {
    GR,
    CO,
    PR,
    ST,
    SST,
    STG,
    ID,
}

pub const ALL_SEMS: [Sem; 7] = [Sem::GR, Sem::CO, Sem::PR, Sem::ST, Sem::SST, Sem::STG, Sem::ID];

impl Sem {
    pub fn name(self) -> &'static str {
        match self {
            Sem::GR => "GR",
            Sem::CO => "CO",
            Sem::PR => "PR",
            Sem::ST => "ST",
            Sem::SST => "SST",
            Sem::STG => "STG",
            Sem::ID => "ID",
        }
    }
}

#[derive(Clone, Debug, PartialEq, Eq)]
pub struct RefAf {
    pub n: usize,
    /// attackers[i] = mask of the arguments attacking i
    pub attackers: Vec<u32>,
    /// attacked[i] = mask of the arguments attacked by i
    pub attacked: Vec<u32>,
}

impl RefAf {
    pub fn new(n: usize, attacks: &[(usize, usize)]) -> Self {
        assert!(n <= 20);
        let mut attackers = vec![0u32; n];
        let mut attacked = vec![0u32; n];
        for &(a, b) in attacks {
            attackers[b] |= 1 << a;
            attacked[a] |= 1 << b;
        }
        RefAf { n, attackers, attacked }
    }

    pub fn attacks(&self) -> Vec<(usize, usize)> {
        let mut v = vec![];
        for a in 0..self.n {
            for b in 0..self.n {
                if self.attacked[a] >> b & 1 == 1 {
                    v.push((a, b));
                }
            }
        }
        v
    }

    pub fn all(&self) -> u32 {
        if self.n == 0 {
            0
        } else {
            (1u32 << self.n) - 1
        }
    }

    /// S+ : arguments attacked by some member of S
    pub fn plus(&self, s: u32) -> u32 {
        let mut r = 0;
        for i in 0..self.n {
            if s >> i & 1 == 1 {
                r |= self.attacked[i];
            }
        }
        r
    }

    pub fn range(&self, s: u32) -> u32 {
        s | self.plus(s)
    }

    pub fn conflict_free(&self, s: u32) -> bool {
        self.plus(s) & s == 0
    }

    /// characteristic function: arguments all of whose attackers are attacked by S
    pub fn f(&self, s: u32) -> u32 {
        let p = self.plus(s);
        let mut r = 0;
        for i in 0..self.n {
            if self.attackers[i] & !p == 0 {
                r |= 1 << i;
            }
        }
        r
    }

    pub fn admissible(&self, s: u32) -> bool {
        self.conflict_free(s) && (s & !self.f(s)) == 0
    }

    pub fn complete(&self, s: u32) -> bool {
        self.conflict_free(s) && self.f(s) == s
    }

    pub fn stable(&self, s: u32) -> bool {
        self.conflict_free(s) && self.range(s) == self.all()
    }

    pub fn grounded(&self) -> u32 {
        let mut s = 0;
        loop {
            let t = self.f(s);
            if t == s {
                return s;
            }
            s = t;
        }
    }

    pub fn subsets(&self) -> impl Iterator<Item = u32> {
        0..(1u32 << self.n)
    }

    pub fn all_cf(&self) -> Vec<u32> {
        self.subsets().filter(|s| self.conflict_free(*s)).collect()
    }
    pub fn all_adm(&self) -> Vec<u32> {
        self.subsets().filter(|s| self.admissible(*s)).collect()
    }
    pub fn all_co(&self) -> Vec<u32> {
        self.subsets().filter(|s| self.complete(*s)).collect()
    }
    pub fn all_st(&self) -> Vec<u32> {
        self.subsets().filter(|s| self.stable(*s)).collect()
    }

    fn maximal_by<F: Fn(u32) -> u32>(sets: &[u32], key: F) -> Vec<u32> {
        sets.iter()
            .copied()
            .filter(|s| {
                let ks = key(*s);
                !sets.iter().any(|t| {
                    let kt = key(*t);
                    kt != ks && (ks & !kt) == 0
                })
            })
            .collect()
    }

    pub fn all_pr(&self) -> Vec<u32> {
        Self::maximal_by(&self.all_adm(), |s| s)
    }
    pub fn all_sst(&self) -> Vec<u32> {
        Self::maximal_by(&self.all_co(), |s| self.range(s))
    }
    pub fn all_stg(&self) -> Vec<u32> {
        Self::maximal_by(&self.all_cf(), |s| self.range(s))
    }

    pub fn ideal(&self) -> u32 {
        let pr = self.all_pr();
        let inter = pr.iter().fold(self.all(), |a, b| a & b);
        // the union of all admissible subsets of the intersection is admissible; take the maximal one
        let cands: Vec<u32> = self
            .all_adm()
            .into_iter()
            .filter(|s| s & !inter == 0)
            .collect();
        let m = Self::maximal_by(&cands, |s| s);
        assert_eq!(m.len(), 1, "ideal extension must be unique");
        m[0]
    }

    pub fn extensions(&self, sem: Sem) -> Vec<u32> {
        match sem {
            Sem::GR => vec![self.grounded()],
            Sem::CO => self.all_co(),
            Sem::PR => self.all_pr(),
            Sem::ST => self.all_st(),
            Sem::SST => self.all_sst(),
            Sem::STG => self.all_stg(),
            Sem::ID => vec![self.ideal()],
        }
    }

    pub fn is_extension(&self, sem: Sem, s: u32) -> bool {
        match sem {
            Sem::GR => s == self.grounded(),
            Sem::CO => self.complete(s),
            Sem::ST => self.stable(s),
            Sem::ID => s == self.ideal(),
            _ => self.extensions(sem).contains(&s),
        }
    }

    /// connected components (weakly), as masks, ordered by lowest member
    pub fn components(&self) -> Vec<u32> {
        let mut seen = 0u32;
        let mut out = vec![];
        for i in 0..self.n {
            if seen >> i & 1 == 1 {
                continue;
            }
            let mut comp = 1u32 << i;
            loop {
                let mut next = comp;
                for j in 0..self.n {
                    if comp >> j & 1 == 1 {
                        next |= self.attackers[j] | self.attacked[j];
                    }
                }
                if next == comp {
                    break;
                }
                comp = next;
            }
            seen |= comp;
            out.push(comp);
        }
        out
    }

    /// sub-framework induced by `mask` (compact re-indexing, in increasing index order)
    pub fn restrict(&self, mask: u32) -> (RefAf, Vec<usize>) {
        let idx: Vec<usize> = (0..self.n).filter(|i| mask >> i & 1 == 1).collect();
        let mut pos = vec![usize::MAX; self.n];
        for (k, i) in idx.iter().enumerate() {
            pos[*i] = k;
        }
        let atts: Vec<(usize, usize)> = self
            .attacks()
            .into_iter()
            .filter(|(a, b)| mask >> a & 1 == 1 && mask >> b & 1 == 1)
            .map(|(a, b)| (pos[a], pos[b]))
            .collect();
        (RefAf::new(idx.len(), &atts), idx)
    }
}

/// Cached per-framework answers (extensions per semantics), computed lazily.
pub struct SemCache {
    pub af: RefAf,
    exts: [Option<Vec<u32>>; 7],
}

fn sem_idx(s: Sem) -> usize {
    match s {
        Sem::GR => 0,
        Sem::CO => 1,
        Sem::PR => 2,
        Sem::ST => 3,
        Sem::SST => 4,
        Sem::STG => 5,
        Sem::ID => 6,
    }
}

impl SemCache {
    pub fn new(af: RefAf) -> Self {
        SemCache { af, exts: Default::default() }
    }
    pub fn exts(&mut self, sem: Sem) -> &Vec<u32> {
        let i = sem_idx(sem);
        if self.exts[i].is_none() {
            self.exts[i] = Some(self.af.extensions(sem));
        }
        self.exts[i].as_ref().unwrap()
    }
    /// credulous acceptance of "at least one of mask"
    pub fn cred_any(&mut self, sem: Sem, mask: u32) -> bool {
        self.exts(sem).iter().any(|e| e & mask != 0)
    }
    /// skeptical acceptance of "at least one of mask" (vacuously true without extension)
    pub fn skep_any(&mut self, sem: Sem, mask: u32) -> bool {
        self.exts(sem).iter().all(|e| e & mask != 0)
    }
    pub fn is_ext(&mut self, sem: Sem, s: u32) -> bool {
        self.exts(sem).contains(&s)
    }
}

/// Second formulation, via complete labellings over Vec<u8> (0 = in, 1 = out, 2 = undec).
pub mod twin {
    use super::{RefAf, Sem};

    fn labellings(af: &RefAf) -> Vec<Vec<u8>> {
        let n = af.n;
        let mut out = vec![];
        let total = 3usize.pow(n as u32);
        'outer: for code in 0..total {
            let mut l = vec![0u8; n];
            let mut c = code;
            for x in l.iter_mut() {
                *x = (c % 3) as u8;
                c /= 3;
            }
            for a in 0..n {
                let atk: Vec<usize> = (0..n).filter(|b| af.attackers[a] >> b & 1 == 1).collect();
                let all_out = atk.iter().all(|b| l[*b] == 1);
                let some_in = atk.iter().any(|b| l[*b] == 0);
                let legal = match l[a] {
                    0 => all_out,
                    1 => some_in,
                    _ => !all_out && !some_in,
                };
                if !legal {
                    continue 'outer;
                }
            }
            out.push(l);
        }
        out
    }

    fn in_mask(l: &[u8]) -> u32 {
        l.iter().enumerate().filter(|(_, x)| **x == 0).fold(0, |m, (i, _)| m | 1 << i)
    }
    fn undec_mask(l: &[u8]) -> u32 {
        l.iter().enumerate().filter(|(_, x)| **x == 2).fold(0, |m, (i, _)| m | 1 << i)
    }

    pub fn extensions(af: &RefAf, sem: Sem) -> Vec<u32> {
        let labs = labellings(af);
        let ins: Vec<u32> = labs.iter().map(|l| in_mask(l)).collect();
        let mut r: Vec<u32> = match sem {
            Sem::CO => ins.clone(),
            Sem::GR => {
                // the complete labelling with minimal in
                let m = ins.iter().copied().filter(|s| ins.iter().all(|t| s & !t == 0)).collect::<Vec<_>>();
                m
            }
            Sem::PR => ins
                .iter()
                .copied()
                .filter(|s| !ins.iter().any(|t| t != s && s & !t == 0))
                .collect(),
            Sem::ST => labs.iter().filter(|l| undec_mask(l) == 0).map(|l| in_mask(l)).collect(),
            Sem::SST => {
                let und: Vec<u32> = labs.iter().map(|l| undec_mask(l)).collect();
                labs.iter()
                    .enumerate()
                    .filter(|(i, _)| !und.iter().any(|u| *u != und[*i] && u & !und[*i] == 0))
                    .map(|(_, l)| in_mask(l))
                    .collect()
            }
            Sem::ID => {
                let pr: Vec<u32> = ins
                    .iter()
                    .copied()
                    .filter(|s| !ins.iter().any(|t| t != s && s & !t == 0))
                    .collect();
                let inter = pr.iter().fold(af.all(), |a, b| a & b);
                let c: Vec<u32> = ins.iter().copied().filter(|s| s & !inter == 0).collect();
                c.iter().copied().filter(|s| !c.iter().any(|t| t != s && s & !t == 0)).collect()
            }
            Sem::STG => {
                // conflict-free sets with maximal range, by explicit Vec<bool> loops
                let n = af.n;
                let mut cands: Vec<(u32, u32)> = vec![];
                for s in 0..(1u32 << n) {
                    let mem: Vec<bool> = (0..n).map(|i| s >> i & 1 == 1).collect();
                    let mut cf = true;
                    let mut range = mem.clone();
                    for a in 0..n {
                        for b in 0..n {
                            if mem[a] && af.attacked[a] >> b & 1 == 1 {
                                if mem[b] {
                                    cf = false;
                                }
                                range[b] = true;
                            }
                        }
                    }
                    if cf {
                        let r = range.iter().enumerate().filter(|(_, x)| **x).fold(0, |m, (i, _)| m | 1 << i);
                        cands.push((s, r));
                    }
                }
                cands
                    .iter()
                    .filter(|(_, r)| !cands.iter().any(|(_, r2)| r2 != r && r & !r2 == 0))
                    .map(|(s, _)| *s)
                    .collect()
            }
        };
        r.sort();
        r.dedup();
        r
    }
}
