use crustabri::aa::{AAFramework, ArgumentSet};
fn main() {
    let mut s = ArgumentSet::new_with_labels(&["a", "b"]);
    s.remove_argument(&"a").unwrap();
    let mut af = AAFramework::new_with_argument_set(s);
    println!("n={} max={:?}", af.n_arguments(), af.max_argument_id());
    let r = std::panic::catch_unwind(std::panic::AssertUnwindSafe(|| af.new_attack(&"b", &"b")));
    println!("new_attack(b,b): {:?}", r.map(|x| x.is_ok()));
}
