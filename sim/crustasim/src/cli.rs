//! Process-level seam: the real `crustabri` / `crustabri_iccma23` binaries (guard off) and the real
//! `fakesat` program, run as black boxes with injected environment faults and a watchdog.

use std::io::Read;
use std::path::PathBuf;
use std::process::{Command, Stdio};
use std::time::{Duration, Instant};

#[derive(Clone, Copy, Debug, PartialEq, Eq, serde::Serialize, serde::Deserialize, Hash)]
pub enum StdoutMode {
    Pipe,
    /// stdout = /dev/full: every write fails with ENOSPC
    DevFull,
    /// stdout = a pipe whose read end is already closed (EPIPE / SIGPIPE)
    ClosedPipe,
}

pub struct CliOut {
    pub code: Option<i32>,
    pub stdout: Vec<u8>,
    pub stderr: Vec<u8>,
    pub timed_out: bool,
    pub wall_ms: u128,
}

pub fn bins_dir() -> PathBuf {
    PathBuf::from(std::env::var("VERIF_BINS_DIR").unwrap_or_else(|_| "/verif/sim/target-bins/release".into()))
}

pub fn fakesat_path() -> PathBuf {
    match std::env::var("VERIF_FAKESAT") {
        Ok(p) => PathBuf::from(p),
        Err(_) => {
            let me = std::env::current_exe().unwrap();
            me.parent().unwrap().join("fakesat")
        }
    }
}

pub fn scratch_dir(tag: &str) -> PathBuf {
    let base = std::env::var("VERIF_SCRATCH").unwrap_or_else(|_| format!("{}/sim/scratch", crate::framework::verif_dir()));
    let d = PathBuf::from(base).join(format!("{}-{}-{:?}", tag, std::process::id(), std::thread::current().id()).replace(['(', ')'], ""));
    let _ = std::fs::create_dir_all(&d);
    d
}

pub fn run(bin: &str, args: &[String], mode: StdoutMode, timeout: Duration) -> CliOut {
    let start = Instant::now();
    let mut cmd = Command::new(bins_dir().join(bin));
    cmd.args(args).stdin(Stdio::null()).stderr(Stdio::piped()).env("RUST_BACKTRACE", "0");
    match mode {
        StdoutMode::Pipe => {
            cmd.stdout(Stdio::piped());
        }
        StdoutMode::DevFull => {
            cmd.stdout(std::fs::OpenOptions::new().write(true).open("/dev/full").expect("/dev/full"));
        }
        StdoutMode::ClosedPipe => {
            // a child is given the write end of a pipe whose read end we close right away
            let (r, w) = std::io::pipe().expect("pipe");
            drop(r);
            cmd.stdout(w);
        }
    }
    let mut child = match cmd.spawn() {
        Ok(c) => c,
        Err(e) => {
            return CliOut { code: None, stdout: vec![], stderr: format!("spawn failed: {}", e).into_bytes(), timed_out: false, wall_ms: 0 };
        }
    };
    let out_h = child.stdout.take().map(|mut s| {
        std::thread::spawn(move || {
            let mut v = vec![];
            let _ = s.read_to_end(&mut v);
            v
        })
    });
    let err_h = child.stderr.take().map(|mut s| {
        std::thread::spawn(move || {
            let mut v = vec![];
            let _ = s.read_to_end(&mut v);
            v
        })
    });
    let mut timed_out = false;
    let code = loop {
        match child.try_wait() {
            Ok(Some(st)) => break st.code(),
            Ok(None) => {
                if start.elapsed() > timeout {
                    timed_out = true;
                    let _ = child.kill();
                    let _ = child.wait();
                    break None;
                }
                std::thread::sleep(Duration::from_millis(2));
            }
            Err(_) => break None,
        }
    };
    let stdout = out_h.map(|h| h.join().unwrap_or_default()).unwrap_or_default();
    let stderr = err_h.map(|h| h.join().unwrap_or_default()).unwrap_or_default();
    CliOut { code, stdout, stderr, timed_out, wall_ms: start.elapsed().as_millis() }
}

/// stdout without the `![`-prefixed log lines.
pub fn answer_lines(stdout: &[u8]) -> Vec<String> {
    String::from_utf8_lossy(stdout)
        .split_inclusive('\n')
        .filter(|l| !l.starts_with("!["))
        .map(|l| l.to_string())
        .collect()
}
