fn main(){}
