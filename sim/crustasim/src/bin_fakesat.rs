//! fakesat — a real SAT-solver executable that we control (SimChild compiled into a program).
//! Reads DIMACS CNF on stdin, prints a competition-style reply on stdout.
//! Options (no leading dashes, so that they pass through `--external-sat-solver-opt`):
//!   policy=uniform|mintrue|maxtrue|biased   seed=<n>
//!   fault=<kind>[@<k>]      inject the reply fault at the k-th invocation (needs counter=<file>), or always
//!   counter=<file>          invocation counter shared by the processes of one query
//!   comment-bytes=<n>       volume of `c` lines; before the verdict, or after with comments=after
//!   comments=before|after   vsplit=<n>   banner-first   ignore-stdin   chunk=<n> (stdout write size)
//!   log=<file>              append one line per invocation: validation result of the instance received
#[path = "dpll.rs"]
mod dpll;
#[path = "prng.rs"]
mod prng;
#[path = "simchild.rs"]
mod simchild;

use dpll::Policy;
use simchild::{ChildFault, ReplyPlan};
use std::io::{Read, Write};

fn main() {
    let args: Vec<String> = std::env::args().skip(1).collect();
    let get = |k: &str| args.iter().find_map(|a| a.strip_prefix(&format!("{}=", k)).map(|s| s.to_string()));
    let has = |k: &str| args.iter().any(|a| a == k);
    let policy = match get("policy").as_deref() {
        Some("mintrue") => Policy::MinTrue,
        Some("maxtrue") => Policy::MaxTrue,
        Some("biased") => Policy::Biased,
        _ => Policy::Uniform,
    };
    let seed: u64 = get("seed").and_then(|s| s.parse().ok()).unwrap_or(1);
    let mut invocation = 1u64;
    if let Some(f) = get("counter") {
        let cur: u64 = std::fs::read_to_string(&f).ok().and_then(|s| s.trim().parse().ok()).unwrap_or(0);
        invocation = cur + 1;
        let _ = std::fs::write(&f, invocation.to_string());
    }
    let fault: Option<ChildFault> = get("fault").and_then(|s| {
        let (name, at) = match s.split_once('@') {
            Some((n, k)) => (n.to_string(), k.parse::<u64>().ok()),
            None => (s.clone(), None),
        };
        match at {
            Some(k) if k != invocation => None,
            _ => ChildFault::from_name(&name),
        }
    });
    let comment_bytes: usize = get("comment-bytes").and_then(|s| s.parse().ok()).unwrap_or(0);
    let width = 64usize;
    let lines = comment_bytes / width;
    let after = get("comments").as_deref() == Some("after");
    let plan = ReplyPlan {
        comments_before: if after { 0 } else { lines },
        comments_after: if after { lines } else { 0 },
        comment_width: width,
        v_split: get("vsplit").and_then(|s| s.parse().ok()).unwrap_or(0),
        bare_lines: false,
        zero_alone: false,
    };
    let stdout = std::io::stdout();
    let mut out = stdout.lock();
    let chunk: usize = get("chunk").and_then(|s| s.parse().ok()).unwrap_or(0);
    let emit = |out: &mut dyn Write, bytes: &[u8]| -> bool {
        let c = if chunk == 0 { bytes.len().max(1) } else { chunk };
        for part in bytes.chunks(c) {
            if out.write_all(part).is_err() || out.flush().is_err() {
                return false;
            }
        }
        true
    };
    let mut rng = prng::Rng::new(seed.wrapping_mul(0x9E3779B97F4A7C15) ^ invocation);
    let mut plan_rest = plan;
    if has("banner-first") {
        let mut banner = String::new();
        for k in 0..plan.comments_before {
            banner.push_str("c ");
            for i in 0..width - 2 {
                banner.push((b'a' + ((i + k) % 26) as u8) as char);
            }
            banner.push('\n');
        }
        if !emit(&mut out, banner.as_bytes()) {
            std::process::exit(141);
        }
        plan_rest.comments_before = 0;
    }
    let mut input = String::new();
    if has("ignore-stdin") {
        drop(std::io::stdin());
        let _ = emit(&mut out, b"s UNSATISFIABLE\n");
        std::process::exit(20);
    }
    let _ = std::io::stdin().read_to_string(&mut input);
    let run = simchild::run(&input, policy, &mut rng, seed, &plan_rest, fault);
    if let Some(f) = get("log") {
        if let Ok(mut fh) = std::fs::OpenOptions::new().create(true).append(true).open(f) {
            let _ = writeln!(fh, "invocation={} bytes={} errors={:?}", invocation, input.len(), run.dimacs_errors);
        }
    }
    let _ = emit(&mut out, &run.stdout);
    std::process::exit(run.exit_code);
}
