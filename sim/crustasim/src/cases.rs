//! Explicit cases: a framework is always an operation list (so that the minimiser can drop steps),
//! built through one of several construction routes into a real `AAFramework`.

use crate::prng::Rng;
use crate::refstore::{Applied, RefStore, Upd, L};
use crustabri::aa::{AAFramework, ArgumentSet};
use crustabri::io::{AspartixReader, Iccma23Reader, InstanceReader};
use crustabri::utils::LabelType;
use serde::{Deserialize, Serialize};
use std::collections::BTreeMap;

#[derive(Clone, Copy, Debug, PartialEq, Eq, Hash, Serialize, Deserialize)]
pub enum Route {
    /// `ArgumentSet::new_with_labels` for the leading AddArg ops, then the API for the rest
    ApiUsize,
    ApiString,
    /// ICCMA'23 text through `Iccma23Reader`; repeated AddAtt ops become repeated attack lines
    IccmaText,
    /// Aspartix text through `AspartixReader`
    ApxText,
}

#[derive(Clone, Debug, PartialEq, Eq, Hash, Serialize, Deserialize)]
pub struct FwSpec {
    pub route: Route,
    pub ops: Vec<Upd>,
}

pub struct Built<T: LabelType> {
    pub af: AAFramework<T>,
    pub store: RefStore,
    pub lab: BTreeMap<L, T>,
}

impl<T: LabelType> Built<T> {
    pub fn label_to_l(&self, t: &T) -> Option<L> {
        self.lab.iter().find(|(_, v)| *v == t).map(|(k, _)| *k)
    }
}

pub fn usize_label(l: L) -> usize {
    (l as usize) * 3 + 2
}
pub fn string_label(l: L) -> String {
    format!("a{}", l)
}

fn build_api<T: LabelType>(ops: &[Upd], mk: &dyn Fn(L) -> T) -> Built<T> {
    // leading distinct AddArg ops go through new_with_labels
    let mut lead = vec![];
    let mut k = 0;
    while k < ops.len() {
        if let Upd::AddArg(l) = ops[k] {
            if lead.contains(&l) {
                break;
            }
            lead.push(l);
            k += 1;
        } else {
            break;
        }
    }
    let labels: Vec<T> = lead.iter().map(|l| mk(*l)).collect();
    let mut af = AAFramework::new_with_argument_set(ArgumentSet::new_with_labels(&labels));
    let mut store = RefStore::default();
    for l in &lead {
        store.apply(&Upd::AddArg(*l));
    }
    for u in &ops[k..] {
        let c = store.apply(u);
        let r = match u {
            Upd::AddArg(l) => {
                af.new_argument(mk(*l));
                Ok(())
            }
            Upd::DelArg(l) => af.remove_argument(&mk(*l)),
            Upd::AddAtt(a, b) => af.new_attack(&mk(*a), &mk(*b)),
            Upd::DelAtt(a, b) => af.remove_attack(&mk(*a), &mk(*b)),
        };
        // construction is not the subject here (C12 is); a divergence is still fatal for the case
        if r.is_err() != (c == Applied::Invalid) {
            panic!("HARNESS: framework construction diverged from RefStore on {:?}", u);
        }
    }
    let lab = store.live.keys().map(|l| (*l, mk(*l))).collect();
    Built { af, store, lab }
}

/// Renders the final state of `ops` as text. Returns (text, compact store, label map position->L).
fn final_state(ops: &[Upd]) -> (Vec<L>, Vec<(usize, usize)>, RefStore) {
    let mut store = RefStore::default();
    let mut att_lines: Vec<(L, L)> = vec![];
    for u in ops {
        let c = store.apply(u);
        match (u, c) {
            (Upd::AddAtt(a, b), Applied::Changed) | (Upd::AddAtt(a, b), Applied::NoOp) => att_lines.push((*a, *b)),
            (Upd::DelAtt(a, b), Applied::Changed) => att_lines.retain(|x| x != &(*a, *b)),
            (Upd::DelArg(l), Applied::Changed) => att_lines.retain(|(a, b)| a != l && b != l),
            _ => {}
        }
    }
    let args = store.args_by_id();
    let labels: Vec<L> = args.iter().map(|(_, l)| *l).collect();
    let pos = |l: L| labels.iter().position(|x| *x == l).unwrap();
    let lines: Vec<(usize, usize)> = att_lines.iter().map(|(a, b)| (pos(*a), pos(*b))).collect();
    // compact store: ids = positions
    let mut compact = RefStore::default();
    for l in &labels {
        compact.apply(&Upd::AddArg(*l));
    }
    for (a, b) in &att_lines {
        compact.apply(&Upd::AddAtt(*a, *b));
    }
    (labels, lines, compact)
}

pub fn iccma_text(n: usize, lines: &[(usize, usize)]) -> String {
    let mut s = format!("p af {}\n", n);
    for (a, b) in lines {
        s.push_str(&format!("{} {}\n", a + 1, b + 1));
    }
    s
}

pub fn apx_text(labels: &[String], lines: &[(usize, usize)]) -> String {
    let mut s = String::new();
    for l in labels {
        s.push_str(&format!("arg({}).\n", l));
    }
    for (a, b) in lines {
        s.push_str(&format!("att({},{}).\n", labels[*a], labels[*b]));
    }
    s
}

pub fn build_usize(spec: &FwSpec) -> Built<usize> {
    match spec.route {
        Route::ApiUsize => build_api(&spec.ops, &usize_label),
        Route::IccmaText => {
            let (labels, lines, store) = final_state(&spec.ops);
            let text = iccma_text(labels.len(), &lines);
            let af = Iccma23Reader::default()
                .read(&mut text.as_bytes())
                .unwrap_or_else(|e| panic!("HARNESS: generated ICCMA text rejected: {} in {:?}", e, text));
            let lab = labels.iter().enumerate().map(|(i, l)| (*l, i + 1)).collect();
            Built { af, store, lab }
        }
        _ => panic!("HARNESS: route is not a usize route"),
    }
}

pub fn build_string(spec: &FwSpec) -> Built<String> {
    match spec.route {
        Route::ApiString => build_api(&spec.ops, &string_label),
        Route::ApxText => {
            let (labels, lines, store) = final_state(&spec.ops);
            let names: Vec<String> = labels.iter().map(|l| string_label(*l)).collect();
            let text = apx_text(&names, &lines);
            let af = AspartixReader::default()
                .read(&mut text.as_bytes())
                .unwrap_or_else(|e| panic!("HARNESS: generated Aspartix text rejected: {} in {:?}", e, text));
            let lab = labels.iter().map(|l| (*l, string_label(*l))).collect();
            Built { af, store, lab }
        }
        _ => panic!("HARNESS: route is not a string route"),
    }
}

// ---------------------------------------------------------------------------------------------
// GenAF: swarm-style framework generator. Parameters are redrawn per run.

pub struct GenParams {
    pub max_n: usize,
    pub allow_removals: bool,
    /// percentage of frameworks forced to a single component
    pub single_component_pct: usize,
}

fn shape_attacks(rng: &mut Rng, base: L, n: usize, out: &mut Vec<(L, L)>) {
    if n == 0 {
        return;
    }
    let a = |i: usize| base + (i % n) as L;
    match rng.below(13) {
        0 => {
            // cycle (odd or even according to n)
            for i in 0..n {
                out.push((a(i), a(i + 1)));
            }
        }
        1 => {
            // chain
            for i in 0..n.saturating_sub(1) {
                out.push((a(i), a(i + 1)));
            }
        }
        2 => {
            // mutual attack pairs chained
            for i in 0..n.saturating_sub(1) {
                out.push((a(i), a(i + 1)));
                out.push((a(i + 1), a(i)));
            }
        }
        3 => {
            // self-attacker feeding a chain
            out.push((a(0), a(0)));
            for i in 0..n.saturating_sub(1) {
                out.push((a(i), a(i + 1)));
            }
        }
        4 => {
            // funnel: last argument attacked by k attackers, each attacked by d defenders
            if n >= 3 {
                let target = a(n - 1);
                let k = rng.range(1, (n - 1).min(3));
                for i in 0..k {
                    out.push((a(i), target));
                }
                for j in k..n - 1 {
                    for i in 0..k {
                        if rng.chance(3, 4) {
                            out.push((a(j), a(i)));
                        }
                    }
                }
            }
        }
        6 | 7 if n >= 4 => {
            // motif composition: frameworks on which the semantics genuinely differ (GR != ID != the
            // intersection of PR, SST != PR, STG != SST): reinstatement chains, "floating" defeat
            // (x<->y, x->z, y->z, z->w), odd and even cycles, self-attackers, glued by a few
            // one-directional attacks between motifs
            let mut next = 0usize;
            let mut motif_heads: Vec<usize> = vec![];
            while next < n {
                let left = n - next;
                let m = rng.below(7);
                let start = next;
                match m {
                    0 if left >= 3 => {
                        // reinstatement: unattacked -> defeated -> reinstated (optionally two attackers)
                        out.push((a(start), a(start + 1)));
                        out.push((a(start + 1), a(start + 2)));
                        next += 3;
                        if left >= 4 && rng.bool() {
                            out.push((a(start + 3), a(start + 1)));
                            next += 1;
                        }
                    }
                    1 if left >= 4 => {
                        // floating defeat / floating reinstatement
                        out.push((a(start), a(start + 1)));
                        out.push((a(start + 1), a(start)));
                        out.push((a(start), a(start + 2)));
                        out.push((a(start + 1), a(start + 2)));
                        out.push((a(start + 2), a(start + 3)));
                        next += 4;
                        // optionally a longer tail z -> w -> v -> u …: the intersection of the preferred
                        // extensions then needs several pruning rounds to reach the ideal extension
                        let mut tail = start + 3;
                        while next < n && next - start < 8 && rng.chance(1, 2) {
                            out.push((a(tail), a(next)));
                            tail = next;
                            next += 1;
                        }
                    }
                    2 if left >= 3 => {
                        for i in 0..3 {
                            out.push((a(start + i), a(start + (i + 1) % 3)));
                        }
                        next += 3;
                    }
                    3 if left >= 4 => {
                        for i in 0..4 {
                            out.push((a(start + i), a(start + (i + 1) % 4)));
                        }
                        next += 4;
                    }
                    4 => {
                        out.push((a(start), a(start)));
                        next += 1;
                    }
                    5 if left >= 2 => {
                        out.push((a(start), a(start + 1)));
                        out.push((a(start + 1), a(start)));
                        next += 2;
                    }
                    _ => {
                        next += 1; // isolated argument
                    }
                }
                motif_heads.push(start);
            }
            // glue: each motif (but the first) receives or sends one attack from/to an earlier argument
            for h in motif_heads.iter().skip(1) {
                if rng.chance(3, 4) {
                    let other = rng.below(*h);
                    let inside = *h + rng.below((n - *h).min(4));
                    if rng.bool() {
                        out.push((a(other), a(inside)));
                    } else {
                        out.push((a(inside), a(other)));
                    }
                }
            }
        }
        5 if n >= 7 => {
            // threshold funnel around the hybrid encoder's switching point (product of the
            // defender-set sizes of the target = d^k, compared with 32)
            let combos: Vec<(usize, usize)> = [(5, 2), (3, 4), (2, 6), (3, 3), (4, 2), (2, 5), (2, 4), (4, 3)]
                .iter()
                .copied()
                .filter(|(k, d)| 1 + k + d <= n)
                .collect();
            let (k, d) = *rng.pick(&combos);
            let target = a(0);
            for i in 1..=k {
                out.push((a(i), target));
                for j in 0..d {
                    out.push((a(1 + k + j), a(i)));
                }
            }
            if rng.chance(1, 3) {
                // drop one defender edge: product just below
                let idx = rng.below(out.len());
                if out[idx].1 != target {
                    out.remove(idx);
                }
            }
            // a few extra random attacks among the remaining arguments
            for i in 1 + k + d..n {
                out.push((a(i), a(rng.below(n))));
            }
        }
        12 if n >= 5 => {
            // fan with an undecided rest: an unattacked argument defeats k others (the grounded
            // extension settles them), one of which touches a small undecided motif (mutual pair, even
            // or odd cycle, chain) built on the remaining arguments
            let rest = rng.range(2, (n - 2).min(4));
            let k = n - 1 - rest;
            for i in 1..=k {
                out.push((a(0), a(i)));
            }
            let r0 = 1 + k;
            match rng.below(4) {
                0 => {
                    for i in 0..rest - 1 {
                        out.push((a(r0 + i), a(r0 + i + 1)));
                        out.push((a(r0 + i + 1), a(r0 + i)));
                    }
                }
                1 => {
                    for i in 0..rest {
                        out.push((a(r0 + i), a(r0 + (i + 1) % rest)));
                    }
                }
                2 => {
                    for i in 0..rest - 1 {
                        out.push((a(r0 + i), a(r0 + i + 1)));
                    }
                    out.push((a(r0 + rest - 1), a(r0 + rest - 1)));
                }
                _ => {
                    out.push((a(r0), a(r0 + 1)));
                    out.push((a(r0 + 1), a(r0)));
                    for i in 2..rest {
                        out.push((a(r0 + rng.below(2)), a(r0 + i)));
                    }
                }
            }
            // the link between the settled part and the rest
            let spoke = a(1 + rng.below(k));
            let target = a(r0 + rng.below(rest));
            if rng.chance(2, 3) {
                out.push((spoke, target));
            } else {
                out.push((target, spoke));
            }
        }
        11 if n >= 3 => {
            // hub: one argument attacked by / attacking / in mutual attack with (nearly) all the others
            let hub = a(rng.below(n));
            let mode = rng.below(4);
            for i in 0..n {
                let x = a(i);
                if x == hub || rng.chance(1, 8) {
                    continue;
                }
                let m = if mode == 3 { rng.below(3) } else { mode };
                if m == 0 || m == 2 {
                    out.push((x, hub));
                }
                if m == 1 || m == 2 {
                    out.push((hub, x));
                }
            }
            for _ in 0..rng.below(3) {
                out.push((a(rng.below(n)), a(rng.below(n))));
            }
        }
        _ => {
            // random density
            let (num, den) = *rng.pick(&[(1, 6), (1, 3), (2, 3)]);
            let self_p = *rng.pick(&[0usize, 15, 50]);
            for i in 0..n {
                for j in 0..n {
                    if i == j {
                        if rng.below(100) < self_p && rng.chance(1, 3) {
                            out.push((a(i), a(j)));
                        }
                    } else if rng.chance(num, den) {
                        out.push((a(i), a(j)));
                    }
                }
            }
        }
    }
}

/// A plain attack graph (n in 1..=max_n, 1-3 components, each of a drawn shape): for the
/// process-level checks that render their own instance files.
pub fn shaped_graph(rng: &mut Rng, max_n: usize) -> (usize, Vec<(usize, usize)>) {
    let n = rng.range(1, max_n);
    let n_comp = if n >= 3 { rng.weighted(&[60, 30, 10]) + 1 } else { 1 };
    let mut sizes = vec![0usize; n_comp];
    for _ in 0..n {
        let k = rng.below(n_comp);
        sizes[k] += 1;
    }
    let mut atts: Vec<(L, L)> = vec![];
    let mut base = 0;
    for s in &sizes {
        shape_attacks(rng, base as L, *s, &mut atts);
        base += s;
    }
    let mut out: Vec<(usize, usize)> = atts.iter().map(|(a, b)| (*a as usize, *b as usize)).filter(|(a, b)| *a < n && *b < n).collect();
    out.sort();
    out.dedup();
    if rng.chance(1, 2) {
        rng.shuffle(&mut out);
    }
    (n, out)
}

/// Draws a framework as an op list over labels 0..universe.
pub fn gen_framework(rng: &mut Rng, p: &GenParams) -> FwSpec {
    let route = match rng.weighted(&[35, 35, 15, 15]) {
        0 => Route::ApiUsize,
        1 => Route::ApiString,
        2 => Route::IccmaText,
        _ => Route::ApxText,
    };
    let n_weights: Vec<usize> = (0..=p.max_n)
        .map(|n| match n {
            0 => 1,
            1 | 2 => 3,
            3..=7 => 10,
            _ => 4,
        })
        .collect();
    let n = rng.weighted(&n_weights);
    // up to 6 components (4..6 in about one multi-component framework in eight)
    let n_comp = if n >= 2 && rng.below(100) >= p.single_component_pct { (rng.weighted(&[46, 30, 12, 5, 4, 3]) + 1).min(n) } else { 1 };
    // split n into components
    let mut sizes = vec![0usize; n_comp];
    for _ in 0..n {
        let k = rng.below(n_comp);
        sizes[k] += 1;
    }
    let mut atts: Vec<(L, L)> = vec![];
    let mut base = 0;
    for s in &sizes {
        shape_attacks(rng, base as L, *s, &mut atts);
        base += s;
    }
    atts.retain(|(a, b)| (*a as usize) < n && (*b as usize) < n);
    let mut ops: Vec<Upd> = vec![];
    let api = matches!(route, Route::ApiUsize | Route::ApiString);
    let overbuild = api && p.allow_removals && rng.chance(2, 5);
    // label order: identity or shuffled
    let mut order: Vec<L> = (0..n as L).collect();
    if rng.chance(1, 3) {
        rng.shuffle(&mut order);
    }
    if overbuild {
        // extra arguments (labels n..n+x) interleaved, with attacks, all removed afterwards
        // 1 in 25 of these is HEAVY: dozens to hundreds of transient arguments with their attacks, so
        // that the live arguments end up with large, sparse ids and the store with many tombstones
        let heavy = rng.chance(1, 25);
        let extra = if heavy { *rng.pick(&[30usize, 40, 64, 70, 100, 130, 300]) } else { rng.range(1, 3) };
        let mut all: Vec<L> = order.clone();
        for e in 0..extra {
            let at = rng.below(all.len() + 1);
            all.insert(at, (n + e) as L);
        }
        for l in &all {
            ops.push(Upd::AddArg(*l));
        }
        let mut extra_atts = vec![];
        for e in 0..extra {
            let x = (n + e) as L;
            for _ in 0..rng.range(1, if heavy { 5 } else { 3 }) {
                let y = *rng.pick(&all);
                if rng.bool() {
                    extra_atts.push((x, y));
                } else {
                    extra_atts.push((y, x));
                }
            }
        }
        let mut all_atts: Vec<(L, L)> = atts.iter().copied().chain(extra_atts.iter().copied()).collect();
        // a few attacks that are added and removed again
        let mut transient = vec![];
        if n >= 2 {
            for _ in 0..rng.below(3) {
                let t = (rng.below(n) as L, rng.below(n) as L);
                if !atts.contains(&t) {
                    transient.push(t);
                    all_atts.push(t);
                }
            }
        }
        rng.shuffle(&mut all_atts);
        for (a, b) in &all_atts {
            ops.push(Upd::AddAtt(*a, *b));
        }
        for t in &transient {
            ops.push(Upd::DelAtt(t.0, t.1));
        }
        for e in 0..extra {
            ops.push(Upd::DelArg((n + e) as L));
        }
    } else {
        for l in &order {
            ops.push(Upd::AddArg(*l));
        }
        if rng.chance(1, 2) {
            rng.shuffle(&mut atts);
        }
        for (a, b) in &atts {
            ops.push(Upd::AddAtt(*a, *b));
        }
        if route == Route::IccmaText && !atts.is_empty() {
            // duplicated attack lines: the only public way to obtain duplicate attacks
            if rng.chance(1, 6) {
                // every line 2..5 times (per-argument attack lists several times their set size)
                for (a, b) in &atts {
                    for _ in 0..rng.range(1, 4) {
                        ops.push(Upd::AddAtt(*a, *b));
                    }
                }
            } else {
                for _ in 0..rng.below(3) {
                    let (a, b) = *rng.pick(&atts);
                    ops.push(Upd::AddAtt(a, b));
                }
            }
        }
    }
    FwSpec { route, ops }
}

/// Candidate simplifications of a framework spec for the minimiser (one step each).
pub fn shrink_fw(spec: &FwSpec) -> Vec<FwSpec> {
    let mut out = vec![];
    // simpler route
    match spec.route {
        Route::IccmaText | Route::ApxText | Route::ApiString => {
            out.push(FwSpec { route: Route::ApiUsize, ops: spec.ops.clone() });
        }
        _ => {}
    }
    // long op lists (heavy overbuild): blocks of ops first
    if spec.ops.len() > 80 {
        for ops in crate::framework::list_removals(&spec.ops) {
            out.push(FwSpec { route: spec.route, ops });
        }
        return out;
    }
    // drop one op (dropping AddArg also drops ops that mention the label)
    for i in 0..spec.ops.len() {
        let mut ops = spec.ops.clone();
        let removed = ops.remove(i);
        if let Upd::AddArg(l) = removed {
            if !ops.contains(&Upd::AddArg(l)) {
                ops.retain(|u| match u {
                    Upd::AddArg(x) | Upd::DelArg(x) => *x != l,
                    Upd::AddAtt(a, b) | Upd::DelAtt(a, b) => *a != l && *b != l,
                });
            }
        }
        out.push(FwSpec { route: spec.route, ops });
    }
    out
}
