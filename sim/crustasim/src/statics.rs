//! Static solvers under the simulated SAT oracle: construction of every (semantics, encoder)
//! configuration, execution of a query history on solver objects, and the semantic oracles
//! (RefSem) for extensions, statuses and certificates.

use crate::cases::{build_string, build_usize, Built, FwSpec, Route};
use crate::refsem::{Sem, SemCache};
use crate::refstore::L;
use crate::simsat::{self, BudgetExceeded, CHub, Hub, OracleCfg};
use crate::simchild::{ChildFault, ReplyPlan};
use crustabri::aa::{AAFramework, Argument};
use crustabri::encodings::{
    aux_var_constraints_encoder, exp_constraints_encoder, ConstraintsEncoder, HybridCompleteConstraintsEncoder,
};
use crustabri::sat::SatSolver;
use crustabri::solvers::{
    CompleteSemanticsSolver, CredulousAcceptanceComputer, GroundedSemanticsSolver, IdealSemanticsSolver,
    PreferredSemanticsSolver, SemiStableSemanticsSolver, SingleExtensionComputer, SkepticalAcceptanceComputer,
    StableSemanticsSolver, StageSemanticsSolver,
};
use crustabri::utils::LabelType;
use serde::{Deserialize, Serialize};
use std::panic::{catch_unwind, AssertUnwindSafe};

#[derive(Clone, Copy, Debug, PartialEq, Eq, Hash, Serialize, Deserialize)]
pub enum Enc {
    /// the solver's own default (constructor without encoder argument)
    Default,
    AuxVarComplete,
    ExpComplete,
    Hybrid,
    AuxVarAdm,
    AuxVarCf,
    ExpCf,
}

pub fn encoders_for(sem: Sem, kind: QKind) -> Vec<Enc> {
    match (sem, kind) {
        (Sem::GR, _) => vec![Enc::Default],
        (Sem::CO, QKind::DC) => vec![Enc::Default, Enc::AuxVarComplete, Enc::ExpComplete, Enc::Hybrid],
        (Sem::CO, _) => vec![Enc::Default],
        (Sem::PR, QKind::SE) => vec![Enc::Default, Enc::AuxVarAdm, Enc::AuxVarComplete, Enc::ExpComplete, Enc::Hybrid],
        (Sem::PR, _) => vec![Enc::Default, Enc::AuxVarComplete, Enc::ExpComplete, Enc::Hybrid],
        (Sem::ST, _) => vec![Enc::Default],
        (Sem::SST, _) | (Sem::ID, _) => vec![Enc::Default, Enc::AuxVarComplete, Enc::ExpComplete, Enc::Hybrid],
        (Sem::STG, _) => vec![Enc::Default, Enc::AuxVarCf, Enc::ExpCf],
    }
}

/// Encoder usable for all three query kinds of a semantics (histories on one configuration).
pub fn encoders_for_all_kinds(sem: Sem) -> Vec<Enc> {
    match sem {
        Sem::GR | Sem::ST => vec![Enc::Default],
        Sem::CO | Sem::PR | Sem::SST | Sem::ID => vec![Enc::Default, Enc::AuxVarComplete, Enc::ExpComplete, Enc::Hybrid],
        Sem::STG => vec![Enc::Default, Enc::AuxVarCf, Enc::ExpCf],
    }
}

fn make_encoder<T: LabelType>(e: Enc) -> Option<Box<dyn ConstraintsEncoder<T>>> {
    match e {
        Enc::Default => None,
        Enc::AuxVarComplete => Some(Box::new(aux_var_constraints_encoder::new_for_complete_semantics())),
        Enc::ExpComplete => Some(Box::new(exp_constraints_encoder::new_for_complete_semantics())),
        Enc::Hybrid => Some(Box::<HybridCompleteConstraintsEncoder>::default()),
        Enc::AuxVarAdm => Some(Box::new(aux_var_constraints_encoder::new_for_admissibility())),
        Enc::AuxVarCf => Some(Box::new(aux_var_constraints_encoder::new_for_conflict_freeness())),
        Enc::ExpCf => Some(Box::new(exp_constraints_encoder::new_for_conflict_freeness())),
    }
}

#[derive(Clone, Copy, Debug, PartialEq, Eq, Hash, Serialize, Deserialize, PartialOrd, Ord)]
pub enum QKind {
    SE,
    DC,
    DS,
}

#[derive(Clone, Debug, PartialEq, Eq, Hash, Serialize, Deserialize)]
pub struct Q {
    pub kind: QKind,
    pub args: Vec<L>,
    pub cert: bool,
}

type Fac = Box<dyn Fn() -> Box<dyn SatSolver>>;

pub fn make_se<'a, T: LabelType>(
    af: &'a AAFramework<T>,
    sem: Sem,
    enc: Enc,
    fac: Fac,
) -> Box<dyn SingleExtensionComputer<T> + 'a> {
    let e = make_encoder::<T>(enc);
    match sem {
        Sem::GR | Sem::CO => Box::new(GroundedSemanticsSolver::new(af)),
        Sem::PR => match e {
            None => Box::new(PreferredSemanticsSolver::new_with_sat_solver_factory(af, fac)),
            Some(e) => Box::new(PreferredSemanticsSolver::new_with_sat_solver_factory_and_constraints_encoder(af, fac, e)),
        },
        Sem::ST => Box::new(StableSemanticsSolver::new_with_sat_solver_factory(af, fac)),
        Sem::SST => match e {
            None => Box::new(SemiStableSemanticsSolver::new_with_sat_solver_factory(af, fac)),
            Some(e) => Box::new(SemiStableSemanticsSolver::new_with_sat_solver_factory_and_constraints_encoder(af, fac, e)),
        },
        Sem::STG => match e {
            None => Box::new(StageSemanticsSolver::new_with_sat_solver_factory(af, fac)),
            Some(e) => Box::new(StageSemanticsSolver::new_with_sat_solver_factory_and_constraints_encoder(af, fac, e)),
        },
        Sem::ID => match e {
            None => Box::new(IdealSemanticsSolver::new_with_sat_solver_factory(af, fac)),
            Some(e) => Box::new(IdealSemanticsSolver::new_with_sat_solver_factory_and_constraints_encoder(af, fac, e)),
        },
    }
}

pub fn make_dc<'a, T: LabelType>(
    af: &'a AAFramework<T>,
    sem: Sem,
    enc: Enc,
    fac: Fac,
) -> Box<dyn CredulousAcceptanceComputer<T> + 'a> {
    let e = make_encoder::<T>(enc);
    match sem {
        Sem::GR => Box::new(GroundedSemanticsSolver::new(af)),
        Sem::CO | Sem::PR => match e {
            None => Box::new(CompleteSemanticsSolver::new_with_sat_solver_factory(af, fac)),
            Some(e) => Box::new(CompleteSemanticsSolver::new_with_sat_solver_factory_and_constraints_encoder(af, fac, e)),
        },
        Sem::ST => Box::new(StableSemanticsSolver::new_with_sat_solver_factory(af, fac)),
        Sem::SST => match e {
            None => Box::new(SemiStableSemanticsSolver::new_with_sat_solver_factory(af, fac)),
            Some(e) => Box::new(SemiStableSemanticsSolver::new_with_sat_solver_factory_and_constraints_encoder(af, fac, e)),
        },
        Sem::STG => match e {
            None => Box::new(StageSemanticsSolver::new_with_sat_solver_factory(af, fac)),
            Some(e) => Box::new(StageSemanticsSolver::new_with_sat_solver_factory_and_constraints_encoder(af, fac, e)),
        },
        Sem::ID => match e {
            None => Box::new(IdealSemanticsSolver::new_with_sat_solver_factory(af, fac)),
            Some(e) => Box::new(IdealSemanticsSolver::new_with_sat_solver_factory_and_constraints_encoder(af, fac, e)),
        },
    }
}

pub fn make_ds<'a, T: LabelType>(
    af: &'a AAFramework<T>,
    sem: Sem,
    enc: Enc,
    fac: Fac,
) -> Box<dyn SkepticalAcceptanceComputer<T> + 'a> {
    let e = make_encoder::<T>(enc);
    match sem {
        Sem::GR | Sem::CO => Box::new(GroundedSemanticsSolver::new(af)),
        Sem::PR => match e {
            None => Box::new(PreferredSemanticsSolver::new_with_sat_solver_factory(af, fac)),
            Some(e) => Box::new(PreferredSemanticsSolver::new_with_sat_solver_factory_and_constraints_encoder(af, fac, e)),
        },
        Sem::ST => Box::new(StableSemanticsSolver::new_with_sat_solver_factory(af, fac)),
        Sem::SST => match e {
            None => Box::new(SemiStableSemanticsSolver::new_with_sat_solver_factory(af, fac)),
            Some(e) => Box::new(SemiStableSemanticsSolver::new_with_sat_solver_factory_and_constraints_encoder(af, fac, e)),
        },
        Sem::STG => match e {
            None => Box::new(StageSemanticsSolver::new_with_sat_solver_factory(af, fac)),
            Some(e) => Box::new(StageSemanticsSolver::new_with_sat_solver_factory_and_constraints_encoder(af, fac, e)),
        },
        Sem::ID => match e {
            None => Box::new(IdealSemanticsSolver::new_with_sat_solver_factory(af, fac)),
            Some(e) => Box::new(IdealSemanticsSolver::new_with_sat_solver_factory_and_constraints_encoder(af, fac, e)),
        },
    }
}

#[derive(Clone, Copy, Debug, PartialEq, Eq, Hash, Serialize, Deserialize)]
pub enum Backend {
    /// SimSat behind the SatSolver trait
    Sim,
    /// the real BufferedSatSolver over SimChild (hook H1)
    Ext { plan: ReplyPlan, vary_plan: bool },
    /// the real embedded CadicalSolver
    Cadical,
    /// the real ExternalSatSolver spawning the real `fakesat` program for every SAT call (real OS pipes)
    Process { seed: u64, comment_bytes: usize },
}

#[derive(Clone, Debug, PartialEq, Eq, Hash, Serialize, Deserialize)]
pub enum Fault {
    /// SolvingResult::Unknown at global SAT call `at` (1-based), trait level
    SatUnknown { at: u64 },
    /// faulty reply of the simulated external solver at call `at` (needs Backend::Ext)
    Child { at: u64, kind: ChildFault },
}

#[derive(Clone, Debug, PartialEq, Eq, Hash, Serialize, Deserialize)]
pub struct StaticCase {
    pub fw: FwSpec,
    pub sem: Sem,
    pub enc: Enc,
    pub oracle: OracleCfg,
    pub backend: Backend,
    pub queries: Vec<Q>,
    /// all queries of one kind go to ONE solver object (true) or each to a fresh object (false)
    pub reuse_objects: bool,
    pub fault: Option<Fault>,
}

/// What one query returned.
#[derive(Clone, Debug, PartialEq, Eq)]
pub enum Answer {
    /// SE: Some(extension) / None; members as (id, L) after validation; `Err` explains invalid members
    Ext(Option<Result<Vec<(usize, L)>, String>>),
    /// DC/DS: status and optional certificate
    Status(bool, Option<Result<Vec<(usize, L)>, String>>),
    /// the query unwound; payload text
    Panicked(String),
    /// the hub's hard SAT-call budget was exceeded
    Budget,
}

pub struct ExecOut {
    pub answers: Vec<Answer>,
    pub hub: Hub,
    pub chub: Option<CHub>,
    pub store: crate::refstore::RefStore,
    /// framework snapshot differs after the queries
    pub framework_modified: Option<String>,
}

fn panic_text(p: &(dyn std::any::Any + Send)) -> String {
    if let Some(s) = p.downcast_ref::<&str>() {
        s.to_string()
    } else if let Some(s) = p.downcast_ref::<String>() {
        s.clone()
    } else {
        "<non-string panic>".into()
    }
}

fn members<T: LabelType>(built: &Built<T>, ext: &[&Argument<T>]) -> Result<Vec<(usize, L)>, String> {
    let mut out = vec![];
    for a in ext {
        let l = match built.label_to_l(a.label()) {
            Some(l) => l,
            None => return Err(format!("member with label {} is not an argument of the framework", a.label())),
        };
        match built.af.argument_set().get_argument(a.label()) {
            Ok(own) if own.id() == a.id() => {}
            Ok(own) => {
                return Err(format!(
                    "member {} carries id {} but the framework's argument has id {}",
                    a.label(),
                    a.id(),
                    own.id()
                ))
            }
            Err(_) => return Err(format!("member {} unknown to the framework", a.label())),
        }
        out.push((a.id(), l));
    }
    Ok(out)
}

fn snapshot<T: LabelType>(af: &AAFramework<T>) -> String {
    let mut s = String::new();
    s.push_str(&format!("n={} m={} max={:?};", af.n_arguments(), af.n_attacks(), af.max_argument_id()));
    for a in af.argument_set().iter() {
        s.push_str(&format!("{}:{},", a.id(), a.label()));
    }
    s.push(';');
    for att in af.iter_attacks() {
        s.push_str(&format!("{}>{},", att.attacker().id(), att.attacked().id()));
    }
    s
}

pub fn make_hubs(case_oracle: OracleCfg, backend: Backend, fault: &Option<Fault>) -> (Hub, Option<CHub>) {
    let hub = simsat::new_hub(case_oracle);
    let chub = match backend {
        Backend::Ext { plan, vary_plan } => {
            let c = simsat::new_child_hub(plan);
            c.borrow_mut().vary_plan = vary_plan;
            Some(c)
        }
        _ => None,
    };
    match fault {
        Some(Fault::SatUnknown { at }) => hub.borrow_mut().fault_at = Some(*at),
        Some(Fault::Child { at, kind }) => {
            if let Some(c) = &chub {
                c.borrow_mut().fault = Some((*at, *kind));
            }
        }
        None => {}
    }
    (hub, chub)
}

std::thread_local! {
    /// when set, `Backend::Process` uses this factory (the proc engine routes it to the simulated seam)
    static PROCESS_FACTORY_OVERRIDE: std::cell::RefCell<Option<std::rc::Rc<dyn Fn() -> Box<dyn SatSolver>>>> = const { std::cell::RefCell::new(None) };
}

/// Runs a static case whose backend is `Process` with the given factory instead of fakesat.
pub fn exec_static_with_factory(case: &StaticCase, f: &'static (dyn Fn() -> Box<dyn SatSolver> + Sync)) -> ExecOut {
    PROCESS_FACTORY_OVERRIDE.with(|c| *c.borrow_mut() = Some(std::rc::Rc::new(move || f())));
    let out = exec_static(case, ExecOpts::default());
    PROCESS_FACTORY_OVERRIDE.with(|c| *c.borrow_mut() = None);
    out
}

pub fn factory_for(backend: Backend, hub: &Hub, chub: &Option<CHub>) -> Fac {
    if let Backend::Process { .. } = backend {
        if let Some(f) = PROCESS_FACTORY_OVERRIDE.with(|c| c.borrow().clone()) {
            return Box::new(move || f());
        }
    }
    match backend {
        Backend::Sim => simsat::factory(hub),
        Backend::Ext { .. } => simsat::ext_factory(hub, chub.as_ref().unwrap()),
        Backend::Cadical => Box::new(|| crustabri::sat::default_solver()),
        Backend::Process { seed, comment_bytes } => {
            let prog = crate::cli::fakesat_path().to_string_lossy().to_string();
            Box::new(move || {
                Box::new(crustabri::sat::ExternalSatSolver::new(
                    prog.clone(),
                    vec![format!("seed={}", seed), format!("comment-bytes={}", comment_bytes), "policy=uniform".to_string()],
                )) as Box<dyn SatSolver>
            })
        }
    }
}

#[derive(Clone, Copy, Debug, Default)]
pub struct ExecOpts {
    pub record: bool,
    pub call_budget: Option<u64>,
}

fn exec_on<T: LabelType>(built: &Built<T>, case: &StaticCase, opts: ExecOpts) -> ExecOut {
    let (hub, chub) = make_hubs(case.oracle, case.backend, &case.fault);
    hub.borrow_mut().record = opts.record;
    if let Some(b) = opts.call_budget {
        hub.borrow_mut().call_budget = b;
    }
    let before = snapshot(&built.af);
    let af = &built.af;
    let mut se = None;
    let mut dc = None;
    let mut ds = None;
    let mut answers = vec![];
    for q in &case.queries {
        let labels: Vec<T> = q.args.iter().map(|l| built.lab[l].clone()).collect();
        let refs: Vec<&T> = labels.iter().collect();
        let r = catch_unwind(AssertUnwindSafe(|| match q.kind {
            QKind::SE => {
                if se.is_none() || !case.reuse_objects {
                    se = Some(make_se(af, case.sem, case.enc, factory_for(case.backend, &hub, &chub)));
                }
                let e = se.as_mut().unwrap().compute_one_extension();
                Answer::Ext(e.map(|e| members(built, &e)))
            }
            QKind::DC => {
                if dc.is_none() || !case.reuse_objects {
                    dc = Some(make_dc(af, case.sem, case.enc, factory_for(case.backend, &hub, &chub)));
                }
                let s = dc.as_mut().unwrap();
                if q.cert {
                    let (b, c) = if refs.len() == 1 {
                        s.is_credulously_accepted_with_certificate(refs[0])
                    } else {
                        s.are_credulously_accepted_with_certificate(&refs)
                    };
                    Answer::Status(b, c.map(|c| members(built, &c)))
                } else {
                    let b = if refs.len() == 1 { s.is_credulously_accepted(refs[0]) } else { s.are_credulously_accepted(&refs) };
                    Answer::Status(b, None)
                }
            }
            QKind::DS => {
                if ds.is_none() || !case.reuse_objects {
                    ds = Some(make_ds(af, case.sem, case.enc, factory_for(case.backend, &hub, &chub)));
                }
                let s = ds.as_mut().unwrap();
                if q.cert {
                    let (b, c) = if refs.len() == 1 {
                        s.is_skeptically_accepted_with_certificate(refs[0])
                    } else {
                        s.are_skeptically_accepted_with_certificate(&refs)
                    };
                    Answer::Status(b, c.map(|c| members(built, &c)))
                } else {
                    let b = if refs.len() == 1 { s.is_skeptically_accepted(refs[0]) } else { s.are_skeptically_accepted(&refs) };
                    Answer::Status(b, None)
                }
            }
        }));
        match r {
            Ok(a) => answers.push(a),
            Err(p) => {
                if p.downcast_ref::<BudgetExceeded>().is_some() {
                    answers.push(Answer::Budget);
                } else {
                    answers.push(Answer::Panicked(panic_text(p.as_ref())));
                }
                // a solver object that unwound is not reused
                match q.kind {
                    QKind::SE => se = None,
                    QKind::DC => dc = None,
                    QKind::DS => ds = None,
                }
            }
        }
    }
    drop(se);
    drop(dc);
    drop(ds);
    let after = snapshot(&built.af);
    ExecOut {
        answers,
        hub,
        chub,
        store: built.store.clone(),
        framework_modified: if before == after { None } else { Some(format!("before {} after {}", before, after)) },
    }
}

pub fn exec_static(case: &StaticCase, opts: ExecOpts) -> ExecOut {
    match case.fw.route {
        Route::ApiUsize | Route::IccmaText => exec_on(&build_usize(&case.fw), case, opts),
        Route::ApiString | Route::ApxText => exec_on(&build_string(&case.fw), case, opts),
    }
}

// ---------------------------------------------------------------------------------------------
// Oracles

pub struct Truth {
    pub sem: SemCache,
    pub labels: Vec<L>,
    pub ids: Vec<usize>,
}

impl Truth {
    pub fn of(store: &crate::refstore::RefStore) -> Self {
        let (af, labels, ids) = store.to_ref();
        Truth { sem: SemCache::new(af), labels, ids }
    }
    pub fn mask_of(&self, ls: &[L]) -> u32 {
        ls.iter().fold(0, |m, l| m | 1 << self.labels.iter().position(|x| x == l).unwrap())
    }
    /// members (id, L) -> mask, checking ids and duplicates
    pub fn set_mask(&self, ms: &[(usize, L)]) -> Result<u32, String> {
        let mut m = 0u32;
        for (id, l) in ms {
            let p = match self.labels.iter().position(|x| x == l) {
                Some(p) => p,
                None => return Err(format!("member a{} is not a live argument", l)),
            };
            if self.ids[p] != *id {
                return Err(format!("member a{} has id {} instead of {}", l, id, self.ids[p]));
            }
            if m >> p & 1 == 1 {
                return Err(format!("member a{} listed twice", l));
            }
            m |= 1 << p;
        }
        Ok(m)
    }
    pub fn fmt_set(&self, m: u32) -> String {
        let v: Vec<String> = (0..self.labels.len()).filter(|i| m >> i & 1 == 1).map(|i| format!("a{}", self.labels[i])).collect();
        format!("{{{}}}", v.join(","))
    }
}

/// The semantics a certificate must satisfy: DC-PR is answered through CO.
pub fn cert_sem(sem: Sem, kind: QKind) -> Sem {
    if sem == Sem::PR && kind == QKind::DC {
        Sem::CO
    } else {
        sem
    }
}

/// Checks one answer against RefSem. Returns (check-name, message) on violation.
pub fn check_answer(t: &mut Truth, sem: Sem, q: &Q, a: &Answer) -> Option<(String, String)> {
    match (q.kind, a) {
        (_, Answer::Panicked(p)) => Some(("panic".into(), format!("query {:?} panicked: {}", q, p))),
        (_, Answer::Budget) => Some(("step-budget".into(), format!("query {:?} exceeded the hard SAT-call budget", q))),
        (QKind::SE, Answer::Ext(None)) => {
            if sem == Sem::ST && t.sem.exts(Sem::ST).is_empty() {
                None
            } else {
                Some((
                    "no-extension-but-exists".into(),
                    format!("SE-{} reported no extension; RefSem has {} extension(s)", sem.name(), t.sem.exts(sem).len()),
                ))
            }
        }
        (QKind::SE, Answer::Ext(Some(Err(e)))) => Some(("bad-member".into(), format!("SE-{}: {}", sem.name(), e))),
        (QKind::SE, Answer::Ext(Some(Ok(ms)))) => match t.set_mask(ms) {
            Err(e) => Some(("bad-member".into(), format!("SE-{}: {}", sem.name(), e))),
            Ok(m) => {
                if t.sem.is_ext(sem, m) {
                    None
                } else {
                    Some((
                        "not-an-extension".into(),
                        format!("SE-{} returned {} which is not a {} extension", sem.name(), t.fmt_set(m), sem.name()),
                    ))
                }
            }
        },
        (QKind::DC, Answer::Status(b, c)) | (QKind::DS, Answer::Status(b, c)) => {
            let mask = t.mask_of(&q.args);
            let expected = if q.kind == QKind::DC { t.sem.cred_any(sem, mask) } else { t.sem.skep_any(sem, mask) };
            let qn = format!("{}-{} {:?}{}", if q.kind == QKind::DC { "DC" } else { "DS" }, sem.name(), q.args, if q.cert { " +cert" } else { "" });
            if *b != expected {
                return Some(("status-mismatch".into(), format!("{} answered {} but RefSem says {}", qn, yn(*b), yn(expected))));
            }
            // certificate presence
            let promised = q.cert && ((q.kind == QKind::DC && *b) || (q.kind == QKind::DS && !*b));
            match (promised, c) {
                (false, None) => None,
                (false, Some(_)) => Some(("certificate-unexpected".into(), format!("{} = {} carries a certificate", qn, yn(*b)))),
                (true, None) => Some(("certificate-missing".into(), format!("{} = {} carries no certificate", qn, yn(*b)))),
                (true, Some(Err(e))) => Some(("bad-member".into(), format!("{}: certificate: {}", qn, e))),
                (true, Some(Ok(ms))) => match t.set_mask(ms) {
                    Err(e) => Some(("bad-member".into(), format!("{}: certificate: {}", qn, e))),
                    Ok(m) => {
                        let cs = cert_sem(sem, q.kind);
                        if !t.sem.is_ext(cs, m) {
                            Some((
                                "certificate-not-extension".into(),
                                format!("{}: certificate {} is not a {} extension", qn, t.fmt_set(m), cs.name()),
                            ))
                        } else if q.kind == QKind::DC && m & mask == 0 {
                            Some(("certificate-misses-argument".into(), format!("{}: YES-certificate {} contains none of the queried arguments", qn, t.fmt_set(m))))
                        } else if q.kind == QKind::DS && m & mask != 0 {
                            Some(("certificate-contains-argument".into(), format!("{}: NO-certificate {} contains a queried argument", qn, t.fmt_set(m))))
                        } else {
                            None
                        }
                    }
                },
            }
        }
        _ => Some(("harness".into(), "answer kind does not match query kind".into())),
    }
}

pub fn yn(b: bool) -> &'static str {
    if b {
        "YES"
    } else {
        "NO"
    }
}
