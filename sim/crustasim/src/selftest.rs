//! `check selftest`: cross-checks of everything that could make the HARNESS wrong. Any failure
//! here is exit 2 (harness error), never a VIOLATION.

use crate::dpll::{Dpll, Outcome, Policy, SIM_POLICIES};
use crate::framework::{run_one, Property, Tier};
use crate::prng::Rng;
use crate::refsem::{twin, RefAf, Sem, ALL_SEMS};
use crate::simchild;
use crate::streams::{ref_apx, ref_iccma, RefParse};

fn check_af(af: &RefAf) -> Result<(), String> {
    for sem in ALL_SEMS {
        let mut a = af.extensions(sem);
        a.sort();
        a.dedup();
        let b = twin::extensions(af, sem);
        if a != b {
            return Err(format!("RefSem and its labelling-based twin disagree on {} for n={} attacks {:?}: {:?} vs {:?}", sem.name(), af.n, af.attacks(), a, b));
        }
    }
    // textbook inclusions: ST <= SST <= PR <= CO, GR <= ID <= every PR
    let st = af.all_st();
    let sst = af.all_sst();
    let pr = af.all_pr();
    let co = af.all_co();
    let gr = af.grounded();
    let id = af.ideal();
    if !st.is_empty() && {
        let mut x = st.clone();
        x.sort();
        let mut y = sst.clone();
        y.sort();
        x != y
    } {
        return Err(format!("ST != SST although a stable extension exists: {:?}", af.attacks()));
    }
    if !st.is_empty() {
        let mut x = st.clone();
        x.sort();
        let mut y = af.all_stg();
        y.sort();
        if x != y {
            return Err(format!("ST != STG although a stable extension exists: {:?}", af.attacks()));
        }
    }
    if !sst.iter().all(|s| pr.contains(s)) || !pr.iter().all(|s| co.contains(s)) {
        return Err(format!("inclusion SST <= PR <= CO violated: {:?}", af.attacks()));
    }
    if gr & !id != 0 || pr.iter().any(|p| id & !p != 0) || !af.complete(id) {
        return Err(format!("GR <= ID <= every PR (ID complete) violated: {:?}", af.attacks()));
    }
    Ok(())
}

pub fn refsem() -> Result<String, String> {
    let mut count = 0u64;
    // exhaustive for n <= 3 (and n = 4 by seeded sample of the 65536)
    for n in 0..=3usize {
        let pairs: Vec<(usize, usize)> = (0..n).flat_map(|a| (0..n).map(move |b| (a, b))).collect();
        for mask in 0u32..(1u32 << pairs.len()) {
            let atts: Vec<(usize, usize)> = pairs.iter().enumerate().filter(|(i, _)| mask >> i & 1 == 1).map(|(_, p)| *p).collect();
            check_af(&RefAf::new(n, &atts))?;
            count += 1;
        }
    }
    let mut rng = Rng::new(0x5E1F);
    for _ in 0..6000 {
        let n = rng.range(4, 7);
        let dens = *rng.pick(&[1usize, 2, 3]);
        let mut atts = vec![];
        for a in 0..n {
            for b in 0..n {
                if rng.below(6) < dens {
                    atts.push((a, b));
                }
            }
        }
        check_af(&RefAf::new(n, &atts))?;
        count += 1;
    }
    Ok(format!("RefSem == twin on {} frameworks (exhaustive n<=3, seeded 4..7), inclusions hold", count))
}

pub fn dpll() -> Result<String, String> {
    let mut rng = Rng::new(0xD911);
    let mut n = 0u64;
    for _ in 0..20000 {
        let nv = rng.range(1, 8);
        let mut d = Dpll::default();
        let mut clauses = vec![];
        for _ in 0..rng.range(0, 14) {
            let len = rng.range(0, 3);
            let c: Vec<i32> = (0..len)
                .map(|_| {
                    let v = rng.range(1, nv) as i32;
                    if rng.bool() {
                        v
                    } else {
                        -v
                    }
                })
                .collect();
            d.add_clause(&c);
            clauses.push(c);
        }
        let assumptions: Vec<i32> = (0..rng.below(3))
            .map(|_| {
                let v = rng.range(1, nv + 1) as i32;
                if rng.bool() {
                    v
                } else {
                    -v
                }
            })
            .collect();
        let mut expected = false;
        'rows: for row in 0u32..(1 << (nv + 1)) {
            let val = |l: i32| (row >> (l.unsigned_abs() - 1) & 1 == 1) == (l > 0);
            if !assumptions.iter().all(|a| val(*a)) {
                continue;
            }
            for c in &clauses {
                if !c.iter().any(|l| val(*l)) {
                    continue 'rows;
                }
            }
            expected = true;
            break;
        }
        for pol in SIM_POLICIES {
            let mut steps = 1_000_000;
            match d.solve(&assumptions, pol, &mut rng, 7, &mut steps) {
                Outcome::Sat(m) => {
                    if !expected || !d.check_model(&m, &assumptions) {
                        return Err(format!("DPLL {:?} wrong SAT on {:?} / {:?}", pol, clauses, assumptions));
                    }
                }
                Outcome::Unsat => {
                    if expected {
                        return Err(format!("DPLL {:?} wrong UNSAT on {:?} / {:?}", pol, clauses, assumptions));
                    }
                }
                Outcome::Budget => return Err("DPLL budget on a tiny instance".into()),
            }
            n += 1;
        }
    }
    let _ = Policy::Cadical;
    Ok(format!("DPLL agrees with the truth table on {} solves", n))
}

pub fn parsers() -> Result<String, String> {
    let wf = |r: RefParse| matches!(r, RefParse::WellFormed(..));
    let ill = |r: RefParse| matches!(r, RefParse::IllFormed(_));
    let uns = |r: RefParse| matches!(r, RefParse::Unspecified(_));
    let checks: Vec<(bool, &str)> = vec![
        (wf(ref_iccma(b"p af 3\n1 2\n2 3\n")), "iccma basic"),
        (wf(ref_iccma(b"# c\np af 2\r\n1 2\r\n\r\n")), "iccma crlf + trailing blank"),
        (wf(ref_iccma(b"p af 0")), "iccma empty framework, no final newline"),
        (ill(ref_iccma(b"")), "iccma empty file"),
        (ill(ref_iccma(b"p af 2\n1 3\n")), "iccma index out of range"),
        (ill(ref_iccma(b"p af 2\n1\n")), "iccma arity"),
        (ill(ref_iccma(b"p af 2\n\n1 2\n")), "iccma content after blank"),
        (uns(ref_iccma(b"p af 2\n+1 2\n")), "iccma +1"),
        (uns(ref_iccma(b"p af 2\n1 2\r")), "iccma lone CR"),
        (wf(ref_apx(b"arg(a).\narg(b).\natt(a,b).\n")), "apx basic"),
        (wf(ref_apx(b" arg( a ). \n\natt(a , a).")), "apx spaces"),
        (wf(ref_apx(b"")), "apx empty"),
        (ill(ref_apx(b"arg(a).\natt(a,b).\n")), "apx undeclared"),
        (ill(ref_apx(b"arg(a).\natt(a,a).\narg(b).\n")), "apx arg after att"),
        (ill(ref_apx(b"arg(a,b).\n")), "apx arity"),
        (uns(ref_apx(b"arg(a)x\n")), "apx wrong terminator"),
        (uns(ref_apx(b"% c\n")), "apx comment"),
    ];
    for (ok, name) in &checks {
        if !ok {
            return Err(format!("reference parser self-check failed: {}", name));
        }
    }
    // strict DIMACS validator
    let (p, e) = simchild::parse_dimacs("p cnf 2 2\n1 -2 0\n2 0\n");
    if p.is_none() || !e.is_empty() {
        return Err("DIMACS validator rejects a well-formed instance".into());
    }
    let (_, e) = simchild::parse_dimacs("p cnf 1 2\n1 -2 0\n2 0\n");
    if e.is_empty() {
        return Err("DIMACS validator accepts a header that is too small".into());
    }
    let (_, e) = simchild::parse_dimacs("p cnf 2 3\n1 -2 0\n2 0\n");
    if e.is_empty() {
        return Err("DIMACS validator accepts a wrong clause count".into());
    }
    Ok(format!("{} reference-parser examples and 3 DIMACS-validator examples ok", checks.len()))
}

/// Determinism: every run executed twice (fresh state) must give the same digest and violations.
pub fn determinism(props: &[Box<dyn Property>], seed: u64, runs: u64) -> Result<String, String> {
    let mut total = 0u64;
    for p in props {
        for i in 0..runs {
            let (c1, r1) = run_one(p.as_ref(), seed, i, Tier::Quick);
            let (c2, r2) = run_one(p.as_ref(), seed, i, Tier::Quick);
            if c1 != c2 {
                return Err(format!("{}: case generation for run {} is not deterministic", p.id(), i));
            }
            let k1: Vec<String> = r1.violations.iter().map(|v| v.key()).collect();
            let k2: Vec<String> = r2.violations.iter().map(|v| v.key()).collect();
            if r1.digest != r2.digest || k1 != k2 || r1.counters != r2.counters {
                return Err(format!("{}: run {} executed twice gave different digests/violations/counters", p.id(), i));
            }
            if let Some(h) = r1.harness_error {
                return Err(format!("{}: run {}: {}", p.id(), i, h));
            }
            total += 1;
        }
    }
    Ok(format!("{} runs over {} properties executed twice with identical digests, violations and counters", total, props.len()))
}

pub fn main(props: &[Box<dyn Property>], seed: u64) -> i32 {
    let mut code = 0;
    let steps: Vec<(&str, Box<dyn Fn() -> Result<String, String>>)> = vec![
        ("refsem", Box::new(refsem)),
        ("dpll", Box::new(dpll)),
        ("parsers", Box::new(parsers)),
    ];
    for (name, f) in steps {
        match f() {
            Ok(m) => println!("selftest {}: ok: {}", name, m),
            Err(e) => {
                println!("HARNESS-ERROR: selftest {}: {}", name, e);
                code = 2;
            }
        }
    }
    match determinism(props, seed, 48) {
        Ok(m) => println!("selftest determinism: ok: {}", m),
        Err(e) => {
            println!("HARNESS-ERROR: selftest determinism: {}", e);
            code = 2;
        }
    }
    let _ = Sem::GR;
    code
}
