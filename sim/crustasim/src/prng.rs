//! Hand-written SplitMix64 -> xoshiro256** generator. No dependency on the `rand` crate so
//! that the stream for a seed is fixed by this file alone.

#[derive(Clone, Debug)]
pub struct Rng {
    s: [u64; 4],
}

pub fn splitmix(x: &mut u64) -> u64 {
    *x = x.wrapping_add(0x9E3779B97F4A7C15);
    let mut z = *x;
    z = (z ^ (z >> 30)).wrapping_mul(0xBF58476D1CE4E5B9);
    z = (z ^ (z >> 27)).wrapping_mul(0x94D049BB133111EB);
    z ^ (z >> 31)
}

/// Derives a run seed from the batch seed, a property tag and a run index.
pub fn derive(seed: u64, tag: &str, idx: u64) -> u64 {
    let mut x = seed ^ 0xC0FFEE_u64.wrapping_mul(0x9E3779B97F4A7C15);
    let mut h = splitmix(&mut x);
    for b in tag.bytes() {
        x ^= (b as u64).wrapping_mul(0x100000001B3);
        h ^= splitmix(&mut x);
    }
    x ^= idx.wrapping_mul(0xD6E8FEB86659FD93);
    h ^= splitmix(&mut x);
    h ^ splitmix(&mut x)
}

impl Rng {
    pub fn new(seed: u64) -> Self {
        let mut x = seed;
        let s = [
            splitmix(&mut x),
            splitmix(&mut x),
            splitmix(&mut x),
            splitmix(&mut x),
        ];
        Rng { s }
    }

    /// Independent sub-stream (workload / oracle / faults / delivery).
    pub fn sub(seed: u64, stream: &str) -> Self {
        Rng::new(derive(seed, stream, 0))
    }

    pub fn next_u64(&mut self) -> u64 {
        let result = self.s[1].wrapping_mul(5).rotate_left(7).wrapping_mul(9);
        let t = self.s[1] << 17;
        self.s[2] ^= self.s[0];
        self.s[3] ^= self.s[1];
        self.s[1] ^= self.s[2];
        self.s[0] ^= self.s[3];
        self.s[2] ^= t;
        self.s[3] = self.s[3].rotate_left(45);
        result
    }

    /// Uniform in 0..n (n > 0).
    pub fn below(&mut self, n: usize) -> usize {
        debug_assert!(n > 0);
        ((self.next_u64() >> 11) % (n as u64)) as usize
    }

    pub fn range(&mut self, lo: usize, hi_incl: usize) -> usize {
        lo + self.below(hi_incl - lo + 1)
    }

    pub fn chance(&mut self, num: usize, den: usize) -> bool {
        self.below(den) < num
    }

    pub fn bool(&mut self) -> bool {
        self.next_u64() & 1 == 1
    }

    pub fn pick<'a, T>(&mut self, v: &'a [T]) -> &'a T {
        &v[self.below(v.len())]
    }

    pub fn weighted(&mut self, weights: &[usize]) -> usize {
        let total: usize = weights.iter().sum();
        let mut r = self.below(total);
        for (i, w) in weights.iter().enumerate() {
            if r < *w {
                return i;
            }
            r -= w;
        }
        weights.len() - 1
    }

    pub fn shuffle<T>(&mut self, v: &mut [T]) {
        for i in (1..v.len()).rev() {
            let j = self.below(i + 1);
            v.swap(i, j);
        }
    }
}

/// 128-bit FNV-style fold used for run digests (event logs) and distinctness counting.
#[derive(Clone, Copy, Debug, PartialEq, Eq, Hash, PartialOrd, Ord)]
pub struct Digest(pub u64, pub u64);

impl Default for Digest {
    fn default() -> Self {
        Digest(0xcbf29ce484222325, 0x84222325cbf29ce4)
    }
}

impl Digest {
    pub fn u64(&mut self, v: u64) {
        self.0 = (self.0 ^ v).wrapping_mul(0x100000001B3).rotate_left(23);
        self.1 = (self.1 ^ v.rotate_left(32)).wrapping_mul(0x9E3779B97F4A7C15).rotate_left(29) ^ self.0;
    }
    pub fn bytes(&mut self, b: &[u8]) {
        self.u64(b.len() as u64);
        for c in b.chunks(8) {
            let mut x = 0u64;
            for (i, y) in c.iter().enumerate() {
                x |= (*y as u64) << (8 * i);
            }
            self.u64(x);
        }
    }
    pub fn str(&mut self, s: &str) {
        self.bytes(s.as_bytes())
    }
    pub fn hex(&self) -> String {
        format!("{:016x}{:016x}", self.0, self.1)
    }
}
