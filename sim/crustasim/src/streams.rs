//! Byte-stream seam: FaultyRead / FaultyWrite over an in-memory file, driven by seeded delivery
//! and fault plans; reference parsers for the two instance grammars (RefIccma, RefApx).

use crate::prng::Rng;
use serde::{Deserialize, Serialize};
use std::io::{self, ErrorKind, Read, Write};

// ------------------------------------------------------------------------------------ reading

#[derive(Clone, Copy, Debug, PartialEq, Eq, Hash, Serialize, Deserialize)]
pub struct ReadPlan {
    /// seed of the chunk-size stream; 0 = deliver everything the caller asks for
    pub chunk_seed: u64,
    /// largest chunk (bytes) when chunk_seed != 0
    pub max_chunk: usize,
    /// percentage of read calls that return ErrorKind::Interrupted first
    pub interrupt_pct: usize,
    /// hard error once `pos` reaches this offset
    pub error_at: Option<usize>,
}

impl ReadPlan {
    pub fn plain() -> Self {
        ReadPlan { chunk_seed: 0, max_chunk: 0, interrupt_pct: 0, error_at: None }
    }
}

pub struct FaultyRead<'a> {
    data: &'a [u8],
    pos: usize,
    plan: ReadPlan,
    rng: Rng,
    pub reads: u64,
    pub interrupts: u64,
    pub errors: u64,
}

impl<'a> FaultyRead<'a> {
    pub fn new(data: &'a [u8], plan: ReadPlan) -> Self {
        FaultyRead { data, pos: 0, plan, rng: Rng::new(plan.chunk_seed ^ 0xDE11), reads: 0, interrupts: 0, errors: 0 }
    }
}

impl Read for FaultyRead<'_> {
    fn read(&mut self, buf: &mut [u8]) -> io::Result<usize> {
        self.reads += 1;
        if buf.is_empty() {
            return Ok(0);
        }
        if self.plan.interrupt_pct > 0 && self.rng.below(100) < self.plan.interrupt_pct {
            self.interrupts += 1;
            return Err(io::Error::new(ErrorKind::Interrupted, "simulated EINTR"));
        }
        if let Some(e) = self.plan.error_at {
            if self.pos >= e {
                self.errors += 1;
                return Err(io::Error::new(ErrorKind::Other, "simulated read error"));
            }
        }
        let mut n = (self.data.len() - self.pos).min(buf.len());
        if self.plan.chunk_seed != 0 && n > 0 {
            n = n.min(self.rng.range(1, self.plan.max_chunk.max(1)));
        }
        if let Some(e) = self.plan.error_at {
            if n > 0 {
                n = n.min(e - self.pos);
            }
        }
        buf[..n].copy_from_slice(&self.data[self.pos..self.pos + n]);
        self.pos += n;
        Ok(n)
    }
}

// ------------------------------------------------------------------------------------ writing

#[derive(Clone, Copy, Debug, PartialEq, Eq, Hash, Serialize, Deserialize)]
pub struct WritePlan {
    /// seed of the short-write stream; 0 = accept everything
    pub short_seed: u64,
    pub max_accept: usize,
    pub interrupt_pct: usize,
    /// hard error (e.g. disk full) once this many bytes were accepted
    pub error_at: Option<usize>,
    /// `flush` fails
    pub fail_flush: bool,
    /// a write returns Ok(0) (treated by write_all as WriteZero) once this many bytes were accepted
    pub zero_at: Option<usize>,
}

impl WritePlan {
    pub fn plain() -> Self {
        WritePlan { short_seed: 0, max_accept: 0, interrupt_pct: 0, error_at: None, fail_flush: false, zero_at: None }
    }
}

pub struct FaultyWrite {
    pub accepted: Vec<u8>,
    plan: WritePlan,
    rng: Rng,
    pub writes: u64,
    pub errors: u64,
    pub flushes: u64,
}

impl FaultyWrite {
    pub fn new(plan: WritePlan) -> Self {
        FaultyWrite { accepted: vec![], plan, rng: Rng::new(plan.short_seed ^ 0x5707), writes: 0, errors: 0, flushes: 0 }
    }
}

impl Write for FaultyWrite {
    fn write(&mut self, buf: &[u8]) -> io::Result<usize> {
        self.writes += 1;
        if buf.is_empty() {
            return Ok(0);
        }
        if self.plan.interrupt_pct > 0 && self.rng.below(100) < self.plan.interrupt_pct {
            return Err(io::Error::new(ErrorKind::Interrupted, "simulated EINTR"));
        }
        if let Some(e) = self.plan.error_at {
            if self.accepted.len() >= e {
                self.errors += 1;
                return Err(io::Error::new(ErrorKind::Other, "simulated write error (device full)"));
            }
        }
        if let Some(z) = self.plan.zero_at {
            if self.accepted.len() >= z {
                self.errors += 1;
                return Ok(0);
            }
        }
        let mut n = buf.len();
        if self.plan.short_seed != 0 {
            n = n.min(self.rng.range(1, self.plan.max_accept.max(1)));
        }
        if let Some(e) = self.plan.error_at {
            n = n.min(e - self.accepted.len());
        }
        if let Some(z) = self.plan.zero_at {
            n = n.min(z - self.accepted.len());
        }
        self.accepted.extend_from_slice(&buf[..n]);
        Ok(n)
    }
    fn flush(&mut self) -> io::Result<()> {
        self.flushes += 1;
        if self.plan.fail_flush {
            self.errors += 1;
            return Err(io::Error::new(ErrorKind::Other, "simulated flush error"));
        }
        Ok(())
    }
}

// ------------------------------------------------------------------------ reference parsers

#[derive(Clone, Debug, PartialEq, Eq)]
pub enum RefParse {
    /// labels in declaration order, attack set over positions
    WellFormed(Vec<String>, Vec<(usize, usize)>),
    /// one of the ill-formedness classes listed in the property
    IllFormed(&'static str),
    /// the specification is silent: only totality is asserted
    Unspecified(&'static str),
}

fn split_lines(text: &str) -> Vec<&str> {
    // lines are terminated by \n or \r\n; a last unterminated segment is a line too (its \r, if any, is kept)
    let mut v: Vec<&str> = text.split('\n').collect();
    let last = v.pop().unwrap_or("");
    let mut out: Vec<&str> = v.into_iter().map(|l| l.strip_suffix('\r').unwrap_or(l)).collect();
    if !last.is_empty() {
        out.push(last);
    }
    out
}

fn tokens(line: &str) -> Option<Vec<&str>> {
    // tokens separated by runs of spaces / tabs; any other control or non-ASCII whitespace is unspecified
    if line.chars().any(|c| (c.is_whitespace() && c != ' ' && c != '\t') || c.is_control() && c != '\t') {
        return None;
    }
    Some(line.split(|c| c == ' ' || c == '\t').filter(|t| !t.is_empty()).collect())
}

enum Num {
    Plain(usize),
    /// a plain decimal numeral (no sign, no leading zero) of more than 7 digits: larger than any
    /// argument count the reference accepts, whatever its length
    Huge,
    Negative,
    Odd, // leading '+', leading zeros, too long: unspecified
    NotANumber,
}

fn number(tok: &str) -> Num {
    let (neg, digits) = match tok.strip_prefix('-') {
        Some(d) => (true, d),
        None => (false, tok),
    };
    if digits.is_empty() || !digits.bytes().all(|b| b.is_ascii_digit()) {
        if tok.starts_with('+') && tok[1..].bytes().all(|b| b.is_ascii_digit()) && tok.len() > 1 {
            return Num::Odd;
        }
        return Num::NotANumber;
    }
    if digits.len() > 1 && digits.starts_with('0') {
        return Num::Odd;
    }
    if digits.len() > 7 {
        return if neg { Num::Negative } else { Num::Huge };
    }
    if neg {
        return if digits.bytes().all(|b| b == b'0') { Num::Odd } else { Num::Negative };
    }
    Num::Plain(digits.parse().unwrap())
}

pub fn ref_iccma(bytes: &[u8]) -> RefParse {
    let text = match std::str::from_utf8(bytes) {
        Ok(t) => t,
        Err(_) => return RefParse::Unspecified("not UTF-8"),
    };
    let mut n: Option<usize> = None;
    let mut attacks: Vec<(usize, usize)> = vec![];
    let mut blank_seen = false;
    for line in split_lines(text) {
        if line.starts_with('#') {
            if blank_seen {
                return RefParse::Unspecified("comment after a blank line");
            }
            continue;
        }
        if line.is_empty() {
            blank_seen = true;
            continue;
        }
        let toks = match tokens(line) {
            Some(t) => t,
            None => return RefParse::Unspecified("unusual whitespace or control character"),
        };
        if toks.is_empty() {
            return RefParse::Unspecified("whitespace-only line");
        }
        if toks[0].starts_with('#') {
            return RefParse::Unspecified("indented comment");
        }
        if blank_seen {
            return RefParse::IllFormed("content after a blank line");
        }
        match n {
            None => {
                if toks.len() != 3 || toks[0] != "p" || toks[1] != "af" {
                    return RefParse::IllFormed("bad or missing header");
                }
                match number(toks[2]) {
                    Num::Plain(k) => n = Some(k),
                    Num::Odd | Num::Huge => return RefParse::Unspecified("unusual number syntax in header (or an argument count beyond 9 999 999)"),
                    Num::Negative | Num::NotANumber => return RefParse::IllFormed("bad or missing header"),
                }
            }
            Some(k) => {
                if toks.len() != 2 {
                    return RefParse::IllFormed("wrong arity");
                }
                let mut idx = [0usize; 2];
                for (j, t) in toks.iter().enumerate() {
                    match number(t) {
                        Num::Plain(v) => {
                            if v < 1 || v > k {
                                return RefParse::IllFormed("index out of range");
                            }
                            idx[j] = v - 1;
                        }
                        Num::Negative | Num::Huge => return RefParse::IllFormed("index out of range"),
                        Num::Odd => return RefParse::Unspecified("unusual number syntax"),
                        Num::NotANumber => return RefParse::Unspecified("non-numeric token in attack line"),
                    }
                }
                if !attacks.contains(&(idx[0], idx[1])) {
                    attacks.push((idx[0], idx[1]));
                }
            }
        }
    }
    match n {
        None => RefParse::IllFormed("bad or missing header"),
        Some(k) => RefParse::WellFormed((1..=k).map(|i| i.to_string()).collect(), attacks),
    }
}

fn is_name(s: &str) -> bool {
    let b = s.as_bytes();
    !b.is_empty() && (b[0] == b'_' || b[0].is_ascii_alphabetic()) && b.iter().all(|c| *c == b'_' || c.is_ascii_alphanumeric())
}

fn trim_sp(s: &str) -> &str {
    s.trim_matches(|c| c == ' ' || c == '\t')
}

pub fn ref_apx(bytes: &[u8]) -> RefParse {
    let text = match std::str::from_utf8(bytes) {
        Ok(t) => t,
        Err(_) => return RefParse::Unspecified("not UTF-8"),
    };
    let mut labels: Vec<String> = vec![];
    let mut attacks: Vec<(usize, usize)> = vec![];
    let mut att_seen = false;
    for line in split_lines(text) {
        if line.chars().any(|c| (c.is_whitespace() && c != ' ' && c != '\t') || (c.is_control() && c != '\t') || !c.is_ascii()) {
            return RefParse::Unspecified("unusual whitespace, control or non-ASCII character");
        }
        let l = trim_sp(line);
        if l.is_empty() {
            continue;
        }
        let (kind, rest) = if let Some(r) = l.strip_prefix("arg(") {
            ("arg", r)
        } else if let Some(r) = l.strip_prefix("att(") {
            ("att", r)
        } else {
            return RefParse::Unspecified("line is neither arg(...) nor att(...)");
        };
        let inner = match rest.strip_suffix(").") {
            Some(i) => i,
            None => return RefParse::Unspecified("line does not end with `).`"),
        };
        if inner.contains('(') || inner.contains(')') {
            return RefParse::Unspecified("nested parentheses");
        }
        let parts: Vec<&str> = inner.split(',').map(trim_sp).collect();
        if parts.iter().any(|p| !is_name(p)) {
            // arity errors with proper names are listed; anything else is not
            return RefParse::Unspecified("argument name outside [A-Za-z_][A-Za-z0-9_]*");
        }
        match kind {
            "arg" => {
                if parts.len() != 1 {
                    return RefParse::IllFormed("wrong arity");
                }
                if att_seen {
                    return RefParse::IllFormed("argument declared after an attack");
                }
                if !labels.iter().any(|x| x == parts[0]) {
                    labels.push(parts[0].to_string());
                }
            }
            _ => {
                if parts.len() != 2 {
                    return RefParse::IllFormed("wrong arity");
                }
                att_seen = true;
                let a = labels.iter().position(|x| x == parts[0]);
                let b = labels.iter().position(|x| x == parts[1]);
                match (a, b) {
                    (Some(a), Some(b)) => {
                        if !attacks.contains(&(a, b)) {
                            attacks.push((a, b));
                        }
                    }
                    _ => return RefParse::IllFormed("undeclared argument"),
                }
            }
        }
    }
    RefParse::WellFormed(labels, attacks)
}
