//! The simulation framework shared by all properties: run seeds, parallel executor with
//! index-ordered merge, violation classes, bounded minimisation, replay files, known-findings
//! matching and the evidence writer.

use crate::prng::{derive, Digest};
use serde_json::{json, Value};
use std::collections::{BTreeMap, BTreeSet, HashSet};
use std::sync::atomic::{AtomicBool, AtomicU64, Ordering};
use std::sync::Mutex;
use std::time::Instant;

#[derive(Clone, Copy, Debug, PartialEq, Eq)]
pub enum Tier {
    Quick,
    Thorough,
}

impl Tier {
    pub fn name(self) -> &'static str {
        match self {
            Tier::Quick => "quick",
            Tier::Thorough => "thorough",
        }
    }
}

#[derive(Clone, Debug)]
pub struct Violation {
    /// `<property>/<check-name>`
    pub class: String,
    /// coarse site: key=value pairs used to match known findings
    pub site: BTreeMap<String, String>,
    pub msg: String,
}

impl Violation {
    pub fn new(prop: &str, check: &str, msg: String) -> Self {
        Violation { class: format!("{}/{}", prop, check), site: BTreeMap::new(), msg }
    }
    pub fn at(mut self, k: &str, v: impl ToString) -> Self {
        self.site.insert(k.to_string(), v.to_string());
        self
    }
    pub fn key(&self) -> String {
        // `inject` (the exact injection of a fault-enumeration run) is carried for the minimiser, not part of the key
        let s: Vec<String> = self.site.iter().filter(|(k, _)| k.as_str() != "inject").map(|(k, v)| format!("{}={}", k, v)).collect();
        format!("{} [{}]", self.class, s.join(" "))
    }
}

#[derive(Default, Clone, Debug)]
pub struct RunResult {
    pub violations: Vec<Violation>,
    /// the harness itself is wrong (oracle disagreement, generator bug): exit 2, never a VIOLATION
    pub harness_error: Option<String>,
    pub digest: Digest,
    /// hash of the canonical case when the run is non-trivial by the property's rule
    pub nontrivial: Option<Digest>,
    /// interleaving measure: digest of the environment's choice sequence (SAT results, schedule, ...)
    pub interleaving: Option<Digest>,
    pub counters: BTreeMap<String, u64>,
    pub skipped: Option<String>,
}

impl RunResult {
    pub fn count(&mut self, k: &str, n: u64) {
        *self.counters.entry(k.to_string()).or_insert(0) += n;
    }
}

pub trait Property: Sync {
    fn id(&self) -> &'static str;
    /// prefix of replay file names / engine tag (differs from id for the `proc` engine)
    fn replay_tag(&self) -> &'static str {
        self.id()
    }
    fn level(&self) -> &'static str {
        "exploration"
    }
    /// number of runs for the tier
    fn runs(&self, tier: Tier) -> u64;
    fn gen(&self, run_seed: u64, tier: Tier) -> Value;
    fn exec(&self, case: &Value) -> RunResult;
    fn shrink(&self, case: &Value) -> Vec<Value>;
    fn rule(&self) -> String;
    fn assumptions(&self) -> Vec<String>;
    fn real_vs_stub(&self) -> Value;
    /// wall-clock cap in seconds (only truncates the batch)
    fn wall_cap(&self, tier: Tier) -> u64 {
        match tier {
            Tier::Quick => 150,
            Tier::Thorough => 900,
        }
    }
    /// extra evidence (e.g. sub-checks run outside the seeded batch)
    fn extra(&self, _tier: Tier, _seed: u64) -> Option<Extra> {
        None
    }
}

/// Result of sub-checks run outside the seeded batch.
#[derive(Default)]
pub struct Extra {
    pub value: Value,
    /// violations found by the sub-check itself, with the case to store in the replay file
    pub violations: Vec<(Value, Violation)>,
    pub harness: Option<String>,
    /// violations already minimised and written to replay files by another engine: (key, message, path)
    pub passthrough: Vec<(String, String, String)>,
    /// KNOWN-FINDING lines printed by another engine
    pub known_lines: Vec<String>,
    pub evaluations: u64,
}

#[derive(Clone, Debug, serde::Deserialize)]
pub struct KnownFinding {
    pub property: String,
    pub status: String,
    #[serde(default)]
    pub class: String,
    #[serde(default)]
    pub pattern: BTreeMap<String, String>,
    #[serde(default)]
    pub what: String,
    #[serde(default)]
    pub commit: Option<String>,
}

pub fn load_known_findings(path: &str) -> Vec<KnownFinding> {
    match std::fs::read_to_string(path) {
        Ok(s) => {
            let v: Value = serde_json::from_str(&s).expect("known_findings.json must be valid JSON");
            let arr = v.get("findings").cloned().unwrap_or(json!([]));
            serde_json::from_value(arr).expect("known_findings.json: bad entry")
        }
        Err(_) => vec![],
    }
}

fn matches_finding(f: &KnownFinding, prop: &str, v: &Violation) -> bool {
    f.status == "open"
        && f.property == prop
        && f.class == v.class
        && f.pattern.iter().all(|(k, val)| v.site.get(k) == Some(val))
}

pub struct BatchCfg {
    pub tier: Tier,
    pub seed: u64,
    pub runs: Option<u64>,
    pub workers: usize,
    pub verif_dir: String,
    pub write_evidence: bool,
    pub max_reports: usize,
}

pub fn verif_dir() -> String {
    std::env::var("VERIF_DIR").unwrap_or_else(|_| "/verif".to_string())
}

struct Merged {
    evaluations: u64,
    counters: BTreeMap<String, u64>,
    distinct: HashSet<Digest>,
    interleavings: HashSet<Digest>,
    violations: Vec<(u64, Violation)>,
    harness: Vec<(u64, String)>,
    skipped: BTreeMap<String, u64>,
    /// order-independent fold of (run index, run digest): does not depend on workers or chunking
    batch_digest: (u64, u64),
}

pub fn run_one(p: &dyn Property, seed: u64, idx: u64, tier: Tier) -> (Value, RunResult) {
    let rs = derive(seed, p.id(), idx);
    let case = p.gen(rs, tier);
    let r = p.exec(&case);
    (case, r)
}

/// Runs a batch; returns the process exit code (0 ok / 1 violation / 2 harness error).
pub fn run_batch(p: &dyn Property, cfg: &BatchCfg) -> i32 {
    let start = Instant::now();
    let n_runs = cfg.runs.unwrap_or_else(|| p.runs(cfg.tier));
    let cap = p.wall_cap(cfg.tier);
    println!("crustasim: property={} tier={} VERIF_SEED={} runs={} workers={}", p.id(), cfg.tier.name(), cfg.seed, n_runs, cfg.workers);
    let next = AtomicU64::new(0);
    let stop = AtomicBool::new(false);
    let truncated_at = AtomicU64::new(u64::MAX);
    let merged = Mutex::new(Merged {
        evaluations: 0,
        counters: BTreeMap::new(),
        distinct: HashSet::new(),
        interleavings: HashSet::new(),
        violations: vec![],
        harness: vec![],
        skipped: BTreeMap::new(),
        batch_digest: (0, 0),
    });
    // chunking only amortises the atomic counter; results are merged by run index, never by worker
    let chunk: u64 = (n_runs / (cfg.workers as u64 * 8)).clamp(1, 64);
    let heartbeat = crate::supervisor::Heartbeat::open();
    let worker_ids = AtomicU64::new(0);
    std::thread::scope(|s| {
        for _ in 0..cfg.workers {
            s.spawn(|| {
                let wid = worker_ids.fetch_add(1, Ordering::Relaxed) as usize;
                let mut local = Merged {
                    evaluations: 0,
                    counters: BTreeMap::new(),
                    distinct: HashSet::new(),
                    interleavings: HashSet::new(),
                    violations: vec![],
                    harness: vec![],
                    skipped: BTreeMap::new(),
                    batch_digest: (0, 0),
                };
                loop {
                    if stop.load(Ordering::Relaxed) {
                        break;
                    }
                    let lo = next.fetch_add(chunk, Ordering::Relaxed);
                    if lo >= n_runs {
                        break;
                    }
                    let hi = (lo + chunk).min(n_runs);
                    for i in lo..hi {
                        heartbeat.beat(wid, i);
                        let (_case, r) = run_one(p, cfg.seed, i, cfg.tier);
                        local.evaluations += 1;
                        let mut rd = Digest::default();
                        rd.u64(i);
                        rd.u64(r.digest.0);
                        rd.u64(r.digest.1);
                        local.batch_digest.0 = local.batch_digest.0.wrapping_add(rd.0);
                        local.batch_digest.1 = local.batch_digest.1.wrapping_add(rd.1);
                        for (k, v) in &r.counters {
                            *local.counters.entry(k.clone()).or_insert(0) += v;
                        }
                        if let Some(d) = r.nontrivial {
                            local.distinct.insert(d);
                        }
                        if let Some(d) = r.interleaving {
                            local.interleavings.insert(d);
                        }
                        if let Some(sk) = r.skipped {
                            *local.skipped.entry(sk).or_insert(0) += 1;
                        }
                        for v in r.violations {
                            if local.violations.len() < 2000 {
                                local.violations.push((i, v));
                            }
                        }
                        if let Some(h) = r.harness_error {
                            local.harness.push((i, h));
                        }
                    }
                    if start.elapsed().as_secs() > cap {
                        stop.store(true, Ordering::Relaxed);
                        truncated_at.fetch_min(hi, Ordering::Relaxed);
                    }
                }
                heartbeat.idle(wid);
                let mut m = merged.lock().unwrap();
                m.evaluations += local.evaluations;
                for (k, v) in local.counters {
                    *m.counters.entry(k).or_insert(0) += v;
                }
                m.distinct.extend(local.distinct);
                m.interleavings.extend(local.interleavings);
                m.violations.extend(local.violations);
                m.harness.extend(local.harness);
                for (k, v) in local.skipped {
                    *m.skipped.entry(k).or_insert(0) += v;
                }
                m.batch_digest.0 = m.batch_digest.0.wrapping_add(local.batch_digest.0);
                m.batch_digest.1 = m.batch_digest.1.wrapping_add(local.batch_digest.1);
            });
        }
    });
    let mut m = merged.into_inner().unwrap();
    m.violations.sort_by(|a, b| a.0.cmp(&b.0).then(a.1.key().cmp(&b.1.key())));
    m.harness.sort();
    let truncated = stop.load(Ordering::Relaxed);
    let batch = Digest(m.batch_digest.0, m.batch_digest.1);

    // extra sub-checks outside the seeded batch
    let mut extra_val = None;
    let mut extra_harness = None;
    let mut extra_violations: Vec<(Value, Violation)> = vec![];
    let mut passthrough: Vec<(String, String, String)> = vec![];
    let mut extra_known: Vec<String> = vec![];
    if let Some(x) = p.extra(cfg.tier, cfg.seed) {
        extra_val = Some(x.value);
        extra_violations = x.violations;
        extra_harness = x.harness;
        passthrough = x.passthrough;
        extra_known = x.known_lines;
    }

    // triage: known findings vs new violations
    let findings = load_known_findings(&format!("{}/known_findings.json", cfg.verif_dir));
    let mut known_hits: BTreeMap<usize, u64> = BTreeMap::new();
    let mut fresh: Vec<(u64, Violation)> = vec![];
    for (i, v) in &m.violations {
        match findings.iter().position(|f| matches_finding(f, p.id(), v)) {
            Some(k) => *known_hits.entry(k).or_insert(0) += 1,
            None => fresh.push((*i, v.clone())),
        }
    }
    let mut fresh_extra: Vec<(Value, Violation)> = vec![];
    for (c, v) in extra_violations {
        match findings.iter().position(|f| matches_finding(f, p.id(), &v)) {
            Some(k) => *known_hits.entry(k).or_insert(0) += 1,
            None => fresh_extra.push((c, v)),
        }
    }
    for (k, n) in &known_hits {
        let f = &findings[*k];
        println!("KNOWN-FINDING: property={} {} ({} occurrence(s) in this run; class {} pattern {:?})", p.id(), f.what, n, f.class, f.pattern);
    }

    // distinct fresh violation keys, in run order
    let mut seen = BTreeSet::new();
    let mut to_report: Vec<(u64, Violation)> = vec![];
    for (i, v) in &fresh {
        if seen.insert(v.key()) && to_report.len() < cfg.max_reports {
            to_report.push((*i, v.clone()));
        }
    }
    let mut exit = 0;
    let mut replay_paths = vec![];
    let mut harness_msgs: Vec<String> = m.harness.iter().take(5).map(|(i, h)| format!("run {}: {}", i, h)).collect();
    if let Some(h) = extra_harness {
        harness_msgs.push(h);
    }
    let mut reported_min_keys = BTreeSet::new();
    for (i, v) in &to_report {
        let rs = derive(cfg.seed, p.id(), *i);
        let case = p.gen(rs, cfg.tier);
        let (min_case, min_v, steps) = minimise(p, &case, v);
        if !reported_min_keys.insert(min_v.key()) {
            continue;
        }
        let r2 = p.exec(&min_case);
        let reproduced = r2.violations.iter().any(|x| x.class == min_v.class);
        if !reproduced {
            harness_msgs.push(format!("violation {} at run {} did not reproduce on replay", v.key(), i));
            continue;
        }
        let path = write_replay(&cfg.verif_dir, p.id(), p.replay_tag(), cfg.seed, *i, rs, &min_v, &min_case, &case, steps, &r2.digest);
        println!("violation: {} :: {}", min_v.key(), min_v.msg);
        println!("VIOLATION property={} replay={}", p.id(), path);
        replay_paths.push(path);
        exit = 1;
    }
    for (k, (c, v)) in fresh_extra.iter().enumerate() {
        if k >= cfg.max_reports {
            break;
        }
        let path = write_replay(&cfg.verif_dir, p.id(), p.replay_tag(), cfg.seed, 1_000_000_000 + k as u64, 0, v, c, c, 0, &Digest::default());
        println!("violation: {} :: {}", v.key(), v.msg);
        println!("VIOLATION property={} replay={}", p.id(), path);
        replay_paths.push(path);
        exit = 1;
    }
    for l in &extra_known {
        println!("{}", l);
    }
    for (key, msg, path) in &passthrough {
        println!("violation: {} :: {}", key, msg);
        println!("VIOLATION property={} replay={}", p.id(), path);
        replay_paths.push(path.clone());
        exit = 1;
    }
    if !harness_msgs.is_empty() {
        for h in &harness_msgs {
            println!("HARNESS-ERROR: {}", h);
        }
        if exit == 0 {
            exit = 2;
        }
    }

    let wall = start.elapsed().as_secs_f64();
    // samples: the first three cases of the batch (by index) and the first non-trivial ones
    let mut samples = vec![];
    for i in 0..3.min(n_runs) {
        let rs = derive(cfg.seed, p.id(), i);
        samples.push(json!({"run": i, "run_seed": rs, "case": p.gen(rs, cfg.tier)}));
    }
    let distinct = m.distinct.len() as u64;
    let mut coverage = json!({
        "evaluations": m.evaluations,
        "distinct_nontrivial": distinct,
        "rule": p.rule(),
        "samples": samples,
        "runs_requested": n_runs,
        "truncated_by_wall_cap": truncated,
        "runs_per_hour": if wall > 0.0 { (m.evaluations as f64 / wall * 3600.0) as u64 } else { 0 },
        "counters": m.counters,
        "distinct_interleavings": m.interleavings.len(),
        "skipped": m.skipped,
        "batch_digest": batch.hex(),
        "workers": cfg.workers,
        "real_vs_stub": p.real_vs_stub(),
        "known_findings_hit": known_hits.iter().map(|(k, n)| json!({"what": findings[*k].what, "occurrences": n})).collect::<Vec<_>>(),
        "violation_keys_new": fresh.iter().map(|(_, v)| v.key()).collect::<BTreeSet<_>>(),
        "replays": replay_paths,
    });
    if let Some(e) = extra_val {
        coverage["extra"] = e;
    }
    let n_viol = fresh.len() + fresh_extra.len() + passthrough.len();
    let evidence = json!({
        "property_id": p.id(),
        "tier": cfg.tier.name(),
        "seed": cfg.seed,
        "level": p.level(),
        "coverage": coverage,
        "assumptions": p.assumptions(),
        "wall_s": wall,
        "violations": n_viol,
    });
    if cfg.write_evidence {
        let dir = format!("{}/evidence", cfg.verif_dir);
        let _ = std::fs::create_dir_all(&dir);
        let path = std::env::var("VERIF_EVIDENCE_FILE").unwrap_or_else(|_| format!("{}/{}.json", dir, p.id()));
        std::fs::write(&path, serde_json::to_string_pretty(&evidence).unwrap()).expect("writing evidence");
    }
    println!(
        "crustasim: property={} evaluations={} distinct_nontrivial={} interleavings={} new_violations={} known={} wall={:.1}s exit={}",
        p.id(),
        m.evaluations,
        distinct,
        m.interleavings.len(),
        n_viol,
        known_hits.values().sum::<u64>(),
        wall,
        exit
    );
    if distinct < 2 && exit == 0 {
        println!("HARNESS-ERROR: fewer than 2 distinct non-trivial cases explored");
        return 2;
    }
    exit
}

/// Bounded delta debugging: keep a candidate only if it still fails in the same class.
pub fn minimise(p: &dyn Property, case: &Value, v: &Violation) -> (Value, Violation, usize) {
    let mut cur = case.clone();
    let mut cur_v = v.clone();
    let mut execs = 0usize;
    let budget = 400usize;
    // wall-clock bound as well: a shrink candidate may be far more expensive than the original case
    // (the reported case is then less small, never different in kind; replay does not minimise)
    let started = std::time::Instant::now();
    'outer: loop {
        for cand in p.shrink(&cur) {
            if execs >= budget || started.elapsed().as_secs() >= 120 {
                break 'outer;
            }
            execs += 1;
            let r = std::panic::catch_unwind(std::panic::AssertUnwindSafe(|| p.exec(&cand)));
            let r = match r {
                Ok(r) => r,
                Err(_) => continue, // candidate made the harness itself fail (ill-formed case): discard
            };
            if r.harness_error.is_some() {
                continue;
            }
            if let Some(nv) = r.violations.iter().find(|x| x.class == cur_v.class) {
                cur_v = nv.clone();
                cur = cand;
                continue 'outer;
            }
        }
        break;
    }
    (cur, cur_v, execs)
}

#[allow(clippy::too_many_arguments)]
pub fn write_replay(
    dir: &str,
    prop: &str,
    tag: &str,
    seed: u64,
    run: u64,
    run_seed: u64,
    v: &Violation,
    min_case: &Value,
    orig_case: &Value,
    shrink_execs: usize,
    digest: &Digest,
) -> String {
    let rdir = format!("{}/replays", dir);
    let _ = std::fs::create_dir_all(&rdir);
    let path = format!("{}/{}-{}-{}.json", rdir, tag, seed, run);
    let doc = json!({
        "property": prop,
        "engine": tag,
        "seed": seed,
        "run": run,
        "run_seed": run_seed,
        "class": v.class,
        "site": v.site,
        "message": v.msg,
        "case": min_case,
        "original_case": orig_case,
        "shrink_executions": shrink_execs,
        "digest": digest.hex(),
    });
    std::fs::write(&path, serde_json::to_string_pretty(&doc).unwrap()).expect("writing replay file");
    path
}

/// Re-executes a replay file. Exit 1 (+ VIOLATION line) when the recorded class reproduces.
pub fn replay(props: &[Box<dyn Property>], path: &str) -> i32 {
    let text = match std::fs::read_to_string(path) {
        Ok(t) => t,
        Err(e) => {
            println!("HARNESS-ERROR: cannot read {}: {}", path, e);
            return 2;
        }
    };
    let doc: Value = serde_json::from_str(&text).expect("replay file must be JSON");
    let prop = doc["property"].as_str().unwrap_or("");
    let tag = doc["engine"].as_str().unwrap_or(prop);
    let p = match props.iter().find(|p| p.replay_tag() == tag) {
        Some(p) => p,
        None => {
            println!("HARNESS-ERROR: unknown property {:?} in replay file", prop);
            return 2;
        }
    };
    let r = p.exec(&doc["case"]);
    let class = doc["class"].as_str().unwrap_or("");
    println!("replay: property={} class={} digest={} (recorded {})", prop, class, r.digest.hex(), doc["digest"].as_str().unwrap_or("?"));
    for v in &r.violations {
        println!("violation: {} :: {}", v.key(), v.msg);
    }
    if let Some(h) = &r.harness_error {
        println!("HARNESS-ERROR: {}", h);
        return 2;
    }
    if r.violations.iter().any(|v| v.class == class) {
        println!("VIOLATION property={} replay={}", prop, path);
        1
    } else {
        println!("replay: the recorded violation does not occur on this tree");
        0
    }
}

/// Shrink candidates for a list: removal of contiguous blocks (halves … 64ths) first, single
/// elements only for short lists. Keeps the number (and the memory) of candidates bounded for
/// the long histories some workloads draw.
pub fn list_removals<T: Clone>(v: &[T]) -> Vec<Vec<T>> {
    let n = v.len();
    let mut out = vec![];
    if n > 8 {
        for parts in [2usize, 4, 8, 16, 32, 64] {
            if parts > n {
                break;
            }
            let step = n.div_ceil(parts);
            let mut at = 0;
            while at < n {
                let mut w = v[..at].to_vec();
                w.extend_from_slice(&v[(at + step).min(n)..]);
                out.push(w);
                at += step;
            }
        }
    }
    if n <= 80 {
        for i in 0..n {
            let mut w = v.to_vec();
            w.remove(i);
            out.push(w);
        }
    }
    out
}
