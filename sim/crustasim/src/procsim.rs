//! C16 part 2 (only in the `proc` build): one `ExternalSatSolver::solve_under_assumptions` through
//! the real, unchanged `exec_solver` on the simulated process/pipe seam (verif_seams), under a
//! seeded shuttle scheduler. One run = one schedule.

use crate::dpll::Policy;
use crate::framework::{Property, RunResult, Tier, Violation};
use crate::prng::{Digest, Rng};
use crate::simchild::{self, ChildFault, ChildVerdict, ReplyPlan, CHILD_FAULTS};
use crustabri::sat::{ExternalSatSolver, Literal, SatSolver, SolvingResult};
use serde::{Deserialize, Serialize};
use serde_json::{json, Value};
use std::io::{Read, Write};
use std::sync::{Arc, Mutex};

#[derive(Clone, Copy, Debug, PartialEq, Eq, Hash, Serialize, Deserialize)]
pub enum ReadPattern {
    /// read stdin to EOF, then write the reply
    ReadAllFirst,
    /// write the comment banner first, then read stdin, then the rest
    BannerFirst,
    /// read stdin in chunks of k bytes
    Chunked(usize),
    /// never read stdin (closed at once); reply is a canned UNSAT
    IgnoreStdin,
}

#[derive(Clone, Copy, Debug, PartialEq, Eq, Hash, Serialize, Deserialize)]
pub enum Sched {
    Random,
    Pct(usize),
}

#[derive(Clone, Debug, Serialize, Deserialize)]
pub struct ProcCase {
    pub stdin_capacity: usize,
    pub stdout_capacity: usize,
    pub clauses: Vec<Vec<i32>>,
    pub assumptions: Vec<i32>,
    pub reserve: usize,
    pub pattern: ReadPattern,
    pub plan: ReplyPlan,
    pub fault: Option<ChildFault>,
    pub child_seed: u64,
    /// child writes its stdout in chunks of this many bytes (0 = all at once)
    pub write_chunk: usize,
    pub sched: Sched,
    pub sched_seed: u64,
    /// program name given to ExternalSatSolver ("simchild" is registered; anything else is missing)
    pub program: String,
    /// instead of one raw solve call: a whole argumentation query (several SAT calls, one child
    /// process each) answered through ExternalSatSolver on the seam, checked against RefSem
    #[serde(default)]
    pub query: Option<crate::statics::StaticCase>,
}

#[derive(Default, Clone, Debug)]
struct ChildReport {
    verdict: Option<ChildVerdict>,
    dimacs_errors: Vec<String>,
    stdin_bytes: usize,
    stdout_bytes: usize,
    stdout_complete: bool,
}

#[derive(Clone, Debug)]
enum CallOutcome {
    /// a whole query was run: its answer (debug text of the violation, if any)
    Query(Option<(String, String)>, u64),
    Sat(Vec<Option<bool>>),
    Unsat,
    Unknown,
    Panicked(String),
}

pub struct ProcSim;

const CAPS: [usize; 6] = [1, 7, 64, 512, 4096, 65536];

fn child_body(case: ProcCase, report: Arc<Mutex<ChildReport>>) -> verif_seams::ProgramBody {
    Arc::new(move |mut io: verif_seams::ChildIo| -> i32 {
        let mut rng = Rng::new(case.child_seed);
        let mut input = Vec::new();
        let banner_len;
        // the reply is computed once stdin is known; BannerFirst emits the comments before reading
        let write_out = |io: &mut verif_seams::ChildIo, bytes: &[u8], report: &Arc<Mutex<ChildReport>>| -> bool {
            let chunk = if case.write_chunk == 0 { bytes.len().max(1) } else { case.write_chunk };
            for c in bytes.chunks(chunk) {
                let mut off = 0;
                while off < c.len() {
                    match io.stdout.write(&c[off..]) {
                        Ok(0) => return false,
                        Ok(n) => {
                            off += n;
                            report.lock().unwrap().stdout_bytes += n;
                        }
                        Err(_) => return false, // EPIPE: stdout closed by the parent, terminate
                    }
                }
            }
            true
        };
        let mut pre = String::new();
        if case.pattern == ReadPattern::BannerFirst {
            for k in 0..case.plan.comments_before {
                pre.push_str("c ");
                for i in 0..case.plan.comment_width.saturating_sub(2) {
                    pre.push((b'a' + ((i + k) % 26) as u8) as char);
                }
                pre.push('\n');
            }
            if !write_out(&mut io, pre.as_bytes(), &report) {
                return 141;
            }
        }
        banner_len = pre.len();
        match case.pattern {
            ReadPattern::IgnoreStdin => {
                drop(std::mem::replace(&mut io.stdin, dead_reader()));
            }
            ReadPattern::Chunked(k) => {
                let mut buf = vec![0u8; k.max(1)];
                loop {
                    match io.stdin.read(&mut buf) {
                        Ok(0) => break,
                        Ok(n) => input.extend_from_slice(&buf[..n]),
                        Err(_) => break,
                    }
                }
            }
            _ => {
                let _ = io.stdin.read_to_end(&mut input);
            }
        }
        report.lock().unwrap().stdin_bytes = input.len();
        let (bytes, verdict, code) = if case.pattern == ReadPattern::IgnoreStdin {
            (b"s UNSATISFIABLE\n".to_vec(), ChildVerdict::Unsat, 20)
        } else {
            let text = String::from_utf8_lossy(&input).to_string();
            let mut plan = case.plan;
            if case.pattern == ReadPattern::BannerFirst {
                plan.comments_before = 0; // already written
            }
            let run = simchild::run(&text, Policy::Uniform, &mut rng, case.child_seed, &plan, case.fault);
            report.lock().unwrap().dimacs_errors = run.dimacs_errors.clone();
            (run.stdout, run.verdict, run.exit_code)
        };
        let _ = banner_len;
        report.lock().unwrap().verdict = Some(verdict);
        let ok = write_out(&mut io, &bytes, &report);
        report.lock().unwrap().stdout_complete = ok;
        code
    })
}

fn dead_reader() -> verif_seams::PipeReader {
    verif_seams::closed_reader()
}

fn gen_case(run_seed: u64) -> ProcCase {
    let mut rng = Rng::sub(run_seed, "workload");
    let nv = rng.range(1, 6);
    let n_clauses = *rng.pick(&[0usize, 1, 3, 8, 20, 60]);
    let mut clauses = vec![];
    for _ in 0..n_clauses {
        let len = rng.range(1, 3);
        clauses.push(
            (0..len)
                .map(|_| {
                    let v = rng.range(1, nv) as i32;
                    if rng.bool() {
                        v
                    } else {
                        -v
                    }
                })
                .collect(),
        );
    }
    let assumptions: Vec<i32> = (0..rng.below(3))
        .map(|_| {
            let v = rng.range(1, nv + 1) as i32;
            if rng.bool() {
                v
            } else {
                -v
            }
        })
        .collect();
    let mut prng = Rng::sub(run_seed, "delivery");
    let stdout_capacity = *prng.pick(&CAPS);
    let stdin_capacity = *prng.pick(&CAPS);
    // reply volume from 0 to ~8x the capacity through the comment volume (absolute cap: the
    // interesting interleavings need small capacities, not megabytes)
    let mut plan = ReplyPlan::draw(&mut prng);
    let target = match prng.below(5) {
        0 => 0,
        1 => stdout_capacity / 2,
        2 => stdout_capacity + 1,
        3 => stdout_capacity * 2,
        _ => stdout_capacity * 8,
    };
    let target = if stdout_capacity >= 65536 { target.min(140_000) } else { target.min(20_000) };
    plan.comment_width = prng.range(2, 72);
    let lines = target / plan.comment_width;
    if prng.bool() {
        plan.comments_before = lines;
        plan.comments_after = prng.below(3);
    } else {
        plan.comments_before = prng.below(3);
        plan.comments_after = lines;
    }
    let mut frng = Rng::sub(run_seed, "faults");
    let fault = if frng.chance(1, 4) { Some(*frng.pick(&CHILD_FAULTS)) } else { None };
    let pattern = match prng.weighted(&[5, 3, 3, 1]) {
        0 => ReadPattern::ReadAllFirst,
        1 => ReadPattern::BannerFirst,
        2 => ReadPattern::Chunked(*prng.pick(&[1usize, 5, 64])),
        _ => ReadPattern::IgnoreStdin,
    };
    let mut srng = Rng::sub(run_seed, "schedule");
    ProcCase {
        stdin_capacity,
        stdout_capacity,
        clauses,
        assumptions,
        reserve: if rng.chance(1, 4) { nv + rng.below(3) } else { 0 },
        pattern,
        plan,
        fault,
        child_seed: rng.next_u64() >> 16,
        write_chunk: if target > 20_000 { *prng.pick(&[0usize, 4096]) } else { *prng.pick(&[0usize, 0, 1, 13, 4096]) },
        sched: if srng.chance(1, 4) { Sched::Pct(srng.range(1, 3)) } else { Sched::Random },
        sched_seed: srng.next_u64() >> 8,
        program: if frng.chance(1, 40) { "no-such-solver".into() } else { "simchild".into() },
        query: None,
    }
}

/// An instance whose RENDERED size is an exact power of two (or one byte off): block-wise feeders
/// and readers have their boundaries there. Clauses `1 x 0` over nine variables (satisfiable by
/// 1 = true); the remainder is absorbed by negative second literals (one byte each).
fn sized_clauses(target: usize) -> Option<Vec<Vec<i32>>> {
    // header "p cnf 9 <C>\n", clause "1 x 0\n" = 6 bytes, "1 -x 0\n" = 7 bytes
    let digits = |c: usize| c.to_string().len();
    let mut c = target / 6;
    while c > 0 {
        let header = 8 + digits(c) + 1;
        if header + 6 * c <= target {
            let rem = target - header - 6 * c;
            if rem <= c {
                let mut out = Vec::with_capacity(c);
                for k in 0..c {
                    let x = 2 + (k % 8) as i32;
                    out.push(vec![1, if k < rem { -x } else { x }]);
                }
                // make sure variable 9 occurs, so that the header says 9
                out[c - 1] = vec![1, if c - 1 < rem { -9 } else { 9 }];
                return Some(out);
            }
        }
        c -= 1;
    }
    None
}

fn gen_sized_case(run_seed: u64) -> ProcCase {
    let mut c = gen_case(run_seed);
    let mut rng = Rng::sub(run_seed, "sized");
    let base = *rng.pick(&[4096usize, 8192, 16_384, 32_768, 65_536]);
    let target = match rng.below(4) {
        0 => base - 1,
        1 => base + 1,
        _ => base,
    };
    if let Some(cl) = sized_clauses(target) {
        c.clauses = cl;
        c.assumptions = vec![];
        c.reserve = 0;
        c.fault = None;
        c.program = "simchild".into();
        // pipes large enough to keep the number of scheduling steps moderate
        c.stdin_capacity = *rng.pick(&[1024usize, 4096, 8192, 65_536]);
        c.stdout_capacity = c.stdout_capacity.max(256);
        c.plan.comments_before = c.plan.comments_before.min(20);
        c.plan.comments_after = c.plan.comments_after.min(20);
        c.write_chunk = 0;
    }
    c
}

fn gen_query_case(run_seed: u64) -> ProcCase {
    let mut c = gen_case(run_seed);
    let mut rng = Rng::sub(run_seed, "query");
    let mode = *rng.pick(&[crate::props::statq::Mode::C01, crate::props::statq::Mode::C02, crate::props::statq::Mode::C03, crate::props::statq::Mode::C04]);
    let mut q = crate::props::statq::gen_static(&mut rng, mode);
    q.queries.truncate(2);
    q.reuse_objects = true;
    q.backend = crate::statics::Backend::Process { seed: 0, comment_bytes: 0 };
    c.fault = None;
    c.program = "simchild".into();
    c.pattern = match c.pattern {
        ReadPattern::IgnoreStdin => ReadPattern::ReadAllFirst,
        p => p,
    };
    // keep the reply volume moderate: a query makes several calls
    c.plan.comments_before = c.plan.comments_before.min(40);
    c.plan.comments_after = c.plan.comments_after.min(40);
    // several calls with instances of a few kB each: byte-sized pipes would only multiply steps
    c.stdin_capacity = c.stdin_capacity.max(64);
    c.stdout_capacity = c.stdout_capacity.max(7);
    c.query = Some(q);
    c
}

struct Exec {
    outcome: Option<CallOutcome>,
    hang: Option<String>,
    report: ChildReport,
    events: Vec<verif_seams::Event>,
    trace: Vec<(u8, u32)>,
}

fn execute(case: &ProcCase) -> Exec {
    let report = Arc::new(Mutex::new(ChildReport::default()));
    let outcome: Arc<Mutex<Option<CallOutcome>>> = Arc::new(Mutex::new(None));
    verif_seams::install_world(verif_seams::World {
        programs: vec![("simchild".to_string(), child_body(case.clone(), report.clone()))],
        stdin_capacity: case.stdin_capacity,
        stdout_capacity: case.stdout_capacity,
        events: vec![],
        pipe_ops: 0,
        trace: vec![],
    });
    let mut cfg = shuttle::Config::new();
    cfg.failure_persistence = shuttle::FailurePersistence::None;
    let volume = case.plan.comment_width * (case.plan.comments_before + case.plan.comments_after) + 64 * case.clauses.len() + 1000;
    cfg.max_steps = shuttle::MaxSteps::FailAfter(if case.query.is_some() { 60_000_000 } else { 1_000_000 + 60 * volume });
    cfg.stack_size = 1 << 20;
    cfg.silence_warnings = true;
    let c2 = case.clone();
    let o2 = outcome.clone();
    let body = move || {
        if let Some(q) = &c2.query {
            // a whole argumentation query: every SAT call spawns a child on the seam
            let q = crate::props::statq::normalise(q);
            let out = crate::statics::exec_static_with_factory(&q, &|| Box::new(ExternalSatSolver::new("simchild".to_string(), vec![])) as Box<dyn SatSolver>);
            let mut truth = crate::statics::Truth::of(&out.store);
            let mut bad = None;
            for (qq, a) in q.queries.iter().zip(out.answers.iter()) {
                if let Some(x) = crate::statics::check_answer(&mut truth, q.sem, qq, a) {
                    bad = Some(x);
                    break;
                }
            }
            *o2.lock().unwrap() = Some(CallOutcome::Query(bad, q.queries.len() as u64));
            return;
        }
        let mut s = ExternalSatSolver::new(c2.program.clone(), vec![]);
        for c in &c2.clauses {
            s.add_clause(c.iter().map(|l| Literal::from(*l as isize)).collect());
        }
        if c2.reserve > 0 {
            s.reserve(c2.reserve);
        }
        let a: Vec<Literal> = c2.assumptions.iter().map(|l| Literal::from(*l as isize)).collect();
        let r = std::panic::catch_unwind(std::panic::AssertUnwindSafe(|| s.solve_under_assumptions(&a)));
        let n_vars = s.n_vars();
        let out = match r {
            Ok(SolvingResult::Satisfiable(m)) => CallOutcome::Sat((1..=n_vars).map(|v| m.value_of(v)).collect()),
            Ok(SolvingResult::Unsatisfiable) => CallOutcome::Unsat,
            Ok(SolvingResult::Unknown) => CallOutcome::Unknown,
            Err(p) => CallOutcome::Panicked(p.downcast_ref::<String>().cloned().or_else(|| p.downcast_ref::<&str>().map(|s| s.to_string())).unwrap_or_default()),
        };
        *o2.lock().unwrap() = Some(out);
    };
    let seed = case.sched_seed;
    let res = std::panic::catch_unwind(std::panic::AssertUnwindSafe(|| match case.sched {
        Sched::Random => {
            shuttle::Runner::new(shuttle::scheduler::RandomScheduler::new_from_seed(seed, 1), cfg).run(body);
        }
        Sched::Pct(d) => {
            shuttle::Runner::new(shuttle::scheduler::PctScheduler::new_from_seed(seed, d, 1), cfg).run(body);
        }
    }));
    let hang = match res {
        Ok(()) => None,
        Err(p) => Some(p.downcast_ref::<String>().cloned().or_else(|| p.downcast_ref::<&str>().map(|s| s.to_string())).unwrap_or_else(|| "<panic>".into())),
    };
    let world = verif_seams::take_world();
    let (events, trace) = world.map(|w| (w.events, w.trace)).unwrap_or_default();
    let rep = report.lock().unwrap().clone();
    let out = outcome.lock().unwrap().clone();
    Exec { outcome: out, hang, report: rep, events, trace }
}

impl Property for ProcSim {
    fn id(&self) -> &'static str {
        "C16"
    }
    fn replay_tag(&self) -> &'static str {
        "C16proc"
    }
    fn runs(&self, tier: Tier) -> u64 {
        match tier {
            Tier::Quick => 60_000,
            Tier::Thorough => 1_000_000,
        }
    }
    fn gen(&self, run_seed: u64, _tier: Tier) -> Value {
        if run_seed % 5 == 0 {
            return serde_json::to_value(gen_query_case(run_seed)).unwrap();
        }
        if run_seed % 97 == 1 {
            // about 1 schedule in 100: an instance rendered to exactly 4 KiB … 64 KiB (or one byte off)
            return serde_json::to_value(gen_sized_case(run_seed)).unwrap();
        }
        serde_json::to_value(gen_case(run_seed)).unwrap()
    }
    fn exec(&self, case: &Value) -> RunResult {
        let case: ProcCase = serde_json::from_value(case.clone()).expect("proc case");
        let mut r = RunResult::default();
        let ex = execute(&case);
        let mut d = Digest::default();
        for (k, n) in &ex.trace {
            d.u64(*k as u64 ^ ((*n as u64) << 8));
        }
        r.digest = d;
        r.count("sched_steps_pipe_ops", ex.trace.len() as u64);
        r.count("reply_bytes", ex.report.stdout_bytes as u64);
        r.count("dimacs_bytes", ex.report.stdin_bytes as u64);
        r.count(&format!("stdout_capacity_{}", case.stdout_capacity), 1);
        r.count(&format!("pattern_{:?}", case.pattern).split('(').next().unwrap().to_string().as_str(), 1);
        r.count(match case.sched { Sched::Random => "scheduler_random", Sched::Pct(_) => "scheduler_pct" }, 1);
        if ex.report.stdout_bytes > case.stdout_capacity {
            r.count("reply_larger_than_pipe_capacity", 1);
        }
        if ex.report.stdin_bytes > case.stdin_capacity {
            r.count("instance_larger_than_pipe_capacity", 1);
        }
        if let Some(f) = case.fault {
            r.count(&format!("fault_injected_{}", f.name()), 1);
        }
        for e in &ex.events {
            match e {
                verif_seams::Event::ThreadPanicked(_) => r.count("feeder_thread_panicked_detached", 1),
                verif_seams::Event::BrokenPipeOnWrite => r.count("broken_pipe_on_write", 1),
                verif_seams::Event::ProgramNotFound(_) => r.count("fault_program_not_found", 1),
                _ => {}
            }
        }
        let site = |v: Violation| v.at("pattern", format!("{:?}", case.pattern).split('(').next().unwrap().to_string()).at("part", "schedules");
        let missing_program = case.program != "simchild";
        if let Some(h) = &ex.hang {
            let what = if h.contains("deadlock") { "deadlock" } else if h.contains("max_steps") || h.contains("exceeded") { "step bound exceeded" } else { "execution failed" };
            if what == "execution failed" {
                r.harness_error = Some(format!("shuttle execution failed unexpectedly: {}", h));
                return r;
            }
            r.violations.push(site(Violation::new(
                "C16",
                if what == "deadlock" { "hang" } else { "no-termination-within-step-bound" },
                format!(
                    "exec_solver does not return ({}): reply of {} bytes through a stdout pipe of capacity {}, instance of {} bytes through a stdin pipe of capacity {}, child pattern {:?}; the child is well-behaved (it terminates once its stdin reaches EOF and its stdout is drained or closed)",
                    what,
                    ex.report.stdout_bytes,
                    case.stdout_capacity,
                    ex.report.stdin_bytes,
                    case.stdin_capacity,
                    case.pattern
                ),
            ))
            .at("volume", if ex.report.stdout_bytes >= case.stdout_capacity { "reply>=capacity" } else { "reply<capacity" }));
            r.nontrivial = Some(d);
            r.interleaving = Some(d);
            return r;
        }
        let out = match ex.outcome {
            Some(o) => o,
            None => {
                r.harness_error = Some("execution finished without outcome".into());
                return r;
            }
        };
        if let CallOutcome::Query(bad, nq) = &out {
            r.count("argumentation_queries_through_the_seam", *nq);
            if let Some((check, msg)) = bad {
                r.violations.push(site(Violation::new("C16", &format!("query-{}", check), format!("argumentation query answered through ExternalSatSolver on the process seam: {}", msg))));
            }
            if !ex.report.dimacs_errors.is_empty() {
                r.violations.push(site(Violation::new("C16", "dimacs-ill-formed", format!("bytes received on the child's stdin are not well-formed DIMACS: {}", ex.report.dimacs_errors[0]))).at("defect", "received-bytes"));
            }
            r.nontrivial = Some(d);
            r.interleaving = Some(d);
            return r;
        }
        if missing_program {
            // spawning a missing program aborts ("Failed to spawn child process"); any result would be invented
            if !matches!(out, CallOutcome::Panicked(_) | CallOutcome::Unknown) {
                r.violations.push(site(Violation::new("C16", "result-without-solver", format!("no such program, yet the call returned {:?}", out))));
            }
            r.nontrivial = Some(d);
            return r;
        }
        if !ex.report.dimacs_errors.is_empty() {
            r.violations.push(site(Violation::new("C16", "dimacs-ill-formed", format!("bytes received on the child's stdin are not well-formed DIMACS: {}", ex.report.dimacs_errors[0]))).at("defect", "received-bytes"));
        }
        let carried = ex.report.verdict.clone().unwrap_or(ChildVerdict::NoVerdict);
        match (&carried, &out) {
            (ChildVerdict::Sat(m), CallOutcome::Sat(vals)) => {
                for (i, b) in m.iter().enumerate() {
                    if vals.get(i).copied().flatten() != Some(*b) {
                        r.violations.push(site(Violation::new("C16", "model-misread", format!("the child printed variable {} = {} but the call reports {:?}", i + 1, b, vals.get(i)))));
                        break;
                    }
                }
            }
            (ChildVerdict::Unsat, CallOutcome::Unsat) => {}
            (ChildVerdict::NoVerdict, CallOutcome::Unknown) | (ChildVerdict::NoVerdict, CallOutcome::Panicked(_)) => {
                r.count("faulty_reply_reported_as_undecided_or_abort", 1);
            }
            (ChildVerdict::NoVerdict, o) => {
                r.violations.push(site(Violation::new("C16", "faulty-reply-became-result", format!("the child's reply carried no verdict ({:?}) but the call returned {:?}", case.fault, o)).at("fault", case.fault.map(|f| f.name()).unwrap_or("none"))));
            }
            (c, o) => {
                r.violations.push(site(Violation::new("C16", "verdict-misread", format!("the child printed {:?} but the call returned {:?}", c, o))));
            }
        }
        r.nontrivial = Some(d);
        let mut i = d;
        i.u64(case.stdout_capacity as u64);
        r.interleaving = Some(i);
        r
    }
    fn shrink(&self, case: &Value) -> Vec<Value> {
        let case: ProcCase = serde_json::from_value(case.clone()).unwrap();
        let mut out = vec![];
        if let Some(q) = &case.query {
            for s in crate::props::statq::shrink_static(q) {
                if matches!(s.backend, crate::statics::Backend::Process { .. }) {
                    out.push(ProcCase { query: Some(s), ..case.clone() });
                }
            }
        }
        if !case.clauses.is_empty() {
            out.push(ProcCase { clauses: vec![], ..case.clone() });
            out.push(ProcCase { clauses: case.clauses[..case.clauses.len() / 2].to_vec(), ..case.clone() });
        }
        if !case.assumptions.is_empty() {
            out.push(ProcCase { assumptions: vec![], ..case.clone() });
        }
        if case.fault.is_some() {
            out.push(ProcCase { fault: None, ..case.clone() });
        }
        if case.pattern != ReadPattern::ReadAllFirst {
            out.push(ProcCase { pattern: ReadPattern::ReadAllFirst, ..case.clone() });
        }
        if case.write_chunk != 0 {
            out.push(ProcCase { write_chunk: 0, ..case.clone() });
        }
        for cap in CAPS {
            if cap < case.stdout_capacity {
                out.push(ProcCase { stdout_capacity: cap, ..case.clone() });
            }
        }
        if case.stdin_capacity != 65536 {
            out.push(ProcCase { stdin_capacity: 65536, ..case.clone() });
        }
        // shrink the comment volume towards the boundary
        let mut p = case.plan;
        if p.comments_before > 0 {
            p.comments_before /= 2;
            out.push(ProcCase { plan: p, ..case.clone() });
        }
        let mut p = case.plan;
        if p.comments_after > 0 {
            p.comments_after /= 2;
            out.push(ProcCase { plan: p, ..case.clone() });
        }
        if case.sched != Sched::Random {
            out.push(ProcCase { sched: Sched::Random, ..case.clone() });
        }
        for s in 0..3 {
            if case.sched_seed != s {
                out.push(ProcCase { sched_seed: s, ..case.clone() });
            }
        }
        out.into_iter().map(|c| serde_json::to_value(c).unwrap()).collect()
    }
    fn rule(&self) -> String {
        "part 2: one run = ONE seeded shuttle schedule (random, or PCT depth 1..3) of one ExternalSatSolver::solve_under_assumptions through the real, unchanged exec_solver on the simulated process/pipe seam: main thread, detached stdin-feeder thread, child 'process' (SimChild). Per run: both pipe capacities from {1,7,64,512,4096,65536}, DIMACS size 0..60 clauses, child read pattern (read-all-first, banner-before-reading, chunked reads, ignore stdin), reply volume 0 .. 8x capacity via comments before/after the model, legal v-line splits, child write chunking, in 1/4 of the runs a reply fault kind, in 1/40 a missing program. Liveness oracle: the call returns under every schedule (shuttle deadlock detection / step bound) because the child is well-behaved. Safety oracle: the SolvingResult equals what the child printed literal by literal; a reply without verdict is Unknown or an abort, never a result. Non-trivial = every run (one schedule); distinct = distinct pipe-operation traces".into()
    }
    fn assumptions(&self) -> Vec<String> {
        vec![
            "verif_seams models OS pipes as bounded FIFOs with blocking short reads/writes, EOF on writer close and EPIPE on reader close, and process exit as closing the child's ends; capacities down to 1 byte are legal for the property ('whatever the volume'); the model is compared with the real OS in part 3".into(),
            "a panic of the detached feeder thread is recorded as an event (the OS lets it pass), not a failure".into(),
        ]
    }
    fn real_vs_stub(&self) -> Value {
        json!({"real": ["sat::external_sat_solver::exec_solver (unchanged body, hook H2)", "sat::ExternalSatSolver", "sat::BufferedSatSolver"], "stub": ["process spawn/wait, pipes, thread scheduling: verif_seams on shuttle", "the solver program: SimChild"]})
    }
}
