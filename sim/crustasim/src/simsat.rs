//! SimSat: the simulated SAT backend behind `crustabri::sat::SatSolver`, plus the per-run hub
//! that owns the oracle stream, the fault plan, the call counters and the event digest.

use crate::dpll::{Dpll, Outcome, Policy};
use crate::prng::{Digest, Rng};
use crustabri::sat::{Assignment, Literal, SatSolver, SolvingListener, SolvingResult};
use serde::{Deserialize, Serialize};
use std::cell::RefCell;
use std::rc::Rc;

#[derive(Clone, Copy, Debug, PartialEq, Eq, Hash, Serialize, Deserialize)]
pub struct OracleCfg {
    pub policy: Policy,
    pub seed: u64,
    /// variables that occur in no clause and no assumption are reported `None` (as CaDiCaL does)
    /// rather than with an arbitrary value (as a printing solver does)
    pub unused_none: bool,
    /// `n_vars()` also counts variables seen only in assumptions (CaDiCaL) or not (BufferedSatSolver)
    pub nvars_counts_assumed: bool,
}

impl OracleCfg {
    pub fn cadical() -> Self {
        OracleCfg { policy: Policy::Cadical, seed: 0, unused_none: true, nvars_counts_assumed: true }
    }
    pub fn draw(rng: &mut Rng) -> Self {
        let policy = match rng.weighted(&[30, 25, 15, 20, 10]) {
            0 => Policy::Uniform,
            1 => Policy::MinTrue,
            2 => Policy::MaxTrue,
            3 => Policy::Biased,
            _ => Policy::Cadical,
        };
        OracleCfg {
            policy,
            seed: rng.next_u64() >> 16,
            unused_none: rng.chance(2, 3),
            nvars_counts_assumed: rng.chance(2, 3) || policy == Policy::Cadical,
        }
    }
}

#[derive(Clone, Copy, Debug, PartialEq, Eq, Hash, Serialize, Deserialize)]
pub enum SatFaultKind {
    /// the backend returns `SolvingResult::Unknown`
    Unknown,
}

#[derive(Clone, Debug, Default)]
pub struct InstLog {
    pub calls: usize,
    pub sat: usize,
    pub unsat: usize,
    pub clauses: usize,
    /// models projected on the variables 1..=proj_vars, one per SAT call (only when recording)
    pub models: Vec<Vec<bool>>,
    pub assumptions: Vec<Vec<i32>>,
}

pub struct SatHub {
    pub cfg: OracleCfg,
    pub rng: Rng,
    pub calls: u64,
    pub sat_calls: u64,
    pub unsat_calls: u64,
    pub instances: Vec<InstLog>,
    /// inject a backend failure at this global call (1-based)
    pub fault_at: Option<u64>,
    pub fault_fired: bool,
    pub digest: Digest,
    /// digest of the result sequence only (interleaving measure)
    pub result_seq: Digest,
    pub call_budget: u64,
    pub budget_exceeded: bool,
    pub record: bool,
    pub xcheck: bool,
    pub dpll_fallbacks: u64,
    pub steps: u64,
    pub harness_error: Option<String>,
    /// digest snapshot taken at the start of every SAT call (prefix identity checks)
    pub call_digests: Vec<Digest>,
}

pub type Hub = Rc<RefCell<SatHub>>;

pub fn new_hub(cfg: OracleCfg) -> Hub {
    Rc::new(RefCell::new(SatHub {
        cfg,
        rng: Rng::sub(cfg.seed, "oracle"),
        calls: 0,
        sat_calls: 0,
        unsat_calls: 0,
        instances: vec![],
        fault_at: None,
        fault_fired: false,
        digest: Digest::default(),
        result_seq: Digest::default(),
        call_budget: 50_000,
        budget_exceeded: false,
        record: false,
        xcheck: true,
        dpll_fallbacks: 0,
        steps: 0,
        harness_error: None,
        call_digests: vec![],
    }))
}

/// Panic payload used when the hub's hard SAT-call budget is exceeded (C18 liveness).
pub struct BudgetExceeded;

/// The mirror used to cross-check SimSat's verdicts (and to decide under the `Cadical` / `Steer`
/// policies): the `cadical` crate directly, NOT crustabri's `CadicalSolver` wrapper, so that a
/// defect in the wrapper cannot make the harness itself wrong.
#[derive(Default)]
struct RawCadical {
    s: cadical::Solver,
    reserved: i32,
}

impl RawCadical {
    fn add_clause(&mut self, cl: Vec<Literal>) {
        self.s.add_clause(cl.iter().map(|l| isize::from(*l) as i32));
    }
    fn reserve(&mut self, n: usize) {
        self.reserved = self.reserved.max(n as i32);
    }
    fn solve_under_assumptions(&mut self, a: &[Literal]) -> SolvingResult {
        match self.s.solve_with(a.iter().map(|l| isize::from(*l) as i32)) {
            Some(true) => {
                let mv = self.s.max_variable();
                let n = mv.max(self.reserved);
                SolvingResult::Satisfiable(Assignment::verif_new((1..=n).map(|i| if i <= mv { self.s.value(i) } else { None }).collect()))
            }
            Some(false) => SolvingResult::Unsatisfiable,
            None => SolvingResult::Unknown,
        }
    }
}

pub struct SimSat {
    hub: Hub,
    inst: usize,
    dpll: Dpll,
    mirror: RawCadical,
    reserved: usize,
    max_assumed: usize,
    listeners: Vec<Box<dyn SolvingListener>>,
}

impl SimSat {
    pub fn new(hub: Hub) -> Self {
        let inst = {
            let mut h = hub.borrow_mut();
            h.instances.push(InstLog::default());
            h.instances.len() - 1
        };
        SimSat {
            hub,
            inst,
            dpll: Dpll::default(),
            mirror: RawCadical::default(),
            reserved: 0,
            max_assumed: 0,
            listeners: vec![],
        }
    }
}

pub fn factory(hub: &Hub) -> Box<dyn Fn() -> Box<dyn SatSolver>> {
    let hub = Rc::clone(hub);
    Box::new(move || Box::new(SimSat::new(Rc::clone(&hub))) as Box<dyn SatSolver>)
}

fn lits_to_i32(ls: &[Literal]) -> Vec<i32> {
    ls.iter().map(|l| isize::from(*l) as i32).collect()
}

impl SatSolver for SimSat {
    fn add_clause(&mut self, cl: Vec<Literal>) {
        let c = lits_to_i32(&cl);
        self.dpll.add_clause(&c);
        self.mirror.add_clause(cl);
        let mut h = self.hub.borrow_mut();
        h.instances[self.inst].clauses += 1;
        h.digest.u64(0xC1A05E ^ self.inst as u64);
        for l in &c {
            h.digest.u64(*l as i64 as u64);
        }
    }

    fn solve(&mut self) -> SolvingResult {
        self.solve_under_assumptions(&[])
    }

    fn solve_under_assumptions(&mut self, assumptions: &[Literal]) -> SolvingResult {
        let a = lits_to_i32(assumptions);
        for l in &a {
            self.max_assumed = self.max_assumed.max(l.unsigned_abs() as usize);
        }
        let n_vars = self.n_vars_full();
        self.listeners
            .iter()
            .for_each(|l| l.solving_start(n_vars, self.dpll.clauses.len()));
        let mut hub = self.hub.borrow_mut();
        hub.calls += 1;
        let call = hub.calls;
        let snap = hub.digest;
        hub.call_digests.push(snap);
        hub.instances[self.inst].calls += 1;
        hub.digest.u64(0x501E ^ ((self.inst as u64) << 32) ^ call);
        for l in &a {
            hub.digest.u64(*l as i64 as u64);
        }
        if hub.calls > hub.call_budget {
            hub.budget_exceeded = true;
            drop(hub);
            std::panic::panic_any(BudgetExceeded);
        }
        if hub.fault_at == Some(call) {
            hub.fault_fired = true;
            hub.digest.u64(0xFA17);
            hub.result_seq.u64(2);
            drop(hub);
            let r = SolvingResult::Unknown;
            self.listeners.iter().for_each(|l| l.solving_end(&r));
            return r;
        }
        let cfg = hub.cfg;
        let mut outcome = if cfg.policy == Policy::Cadical {
            Outcome::Budget
        } else if cfg.policy == Policy::Steer {
            // decided by the real CaDiCaL; which model comes back is steered by seeded assumptions
            let mut kept: Vec<Literal> = assumptions.to_vec();
            let mut best = self.mirror.solve_under_assumptions(&kept);
            if let SolvingResult::Satisfiable(_) = best {
                let nv = self.dpll.max_var;
                for _ in 0..24 {
                    if nv == 0 {
                        break;
                    }
                    let v = hub.rng.range(1, nv) as isize;
                    let l = Literal::from(if hub.rng.bool() { v } else { -v });
                    kept.push(l);
                    match self.mirror.solve_under_assumptions(&kept) {
                        r @ SolvingResult::Satisfiable(_) => best = r,
                        _ => {
                            kept.pop();
                        }
                    }
                    hub.steps += 1;
                }
            }
            match best {
                SolvingResult::Satisfiable(m) => {
                    let mut v = vec![0i8; n_vars.max(self.dpll.max_var) + 1];
                    for (i, b) in m.iter() {
                        if i < v.len() {
                            v[i] = match b {
                                Some(true) => 1,
                                Some(false) => -1,
                                None => 0,
                            };
                        }
                    }
                    for i in 1..v.len() {
                        if v[i] == 0 && self.dpll.is_active(i) {
                            v[i] = -1;
                        }
                    }
                    Outcome::Sat(v)
                }
                SolvingResult::Unsatisfiable => Outcome::Unsat,
                SolvingResult::Unknown => {
                    hub.harness_error = Some("mirror CaDiCaL returned Unknown".into());
                    Outcome::Unsat
                }
            }
        } else {
            let mut steps = 400_000u64;
            let SatHub { rng, .. } = &mut *hub;
            let o = self.dpll.solve(&a, cfg.policy, rng, cfg.seed, &mut steps);
            hub.steps += 400_000 - steps;
            if matches!(o, Outcome::Budget) {
                hub.dpll_fallbacks += 1;
            }
            o
        };
        let need_mirror = (hub.xcheck && cfg.policy != Policy::Steer) || matches!(outcome, Outcome::Budget);
        let mirror_res = if need_mirror {
            Some(self.mirror.solve_under_assumptions(assumptions))
        } else {
            None
        };
        if let Outcome::Budget = outcome {
            // decided by the real CaDiCaL (policy Cadical, or DPLL step budget exhausted)
            outcome = match mirror_res.as_ref().unwrap() {
                SolvingResult::Satisfiable(m) => {
                    let mut v = vec![0i8; n_vars.max(self.dpll.max_var) + 1];
                    for (i, b) in m.iter() {
                        if i < v.len() {
                            v[i] = match b {
                                Some(true) => 1,
                                Some(false) => -1,
                                None => 0,
                            };
                        }
                    }
                    // CaDiCaL may leave eliminated/unused variables unassigned; complete active ones
                    for i in 1..v.len() {
                        if v[i] == 0 && self.dpll.is_active(i) {
                            v[i] = -1;
                        }
                    }
                    if !self.dpll.check_model(&v, &a) {
                        // complete differently: try true
                        for i in 1..v.len() {
                            if self.dpll.is_active(i) && m.value_of(i).is_none() {
                                v[i] = 1;
                            }
                        }
                    }
                    Outcome::Sat(v)
                }
                SolvingResult::Unsatisfiable => Outcome::Unsat,
                SolvingResult::Unknown => {
                    hub.harness_error = Some("mirror CaDiCaL returned Unknown".into());
                    Outcome::Unsat
                }
            };
        } else if let Some(mr) = &mirror_res {
            let agree = matches!(
                (&outcome, mr),
                (Outcome::Sat(_), SolvingResult::Satisfiable(_)) | (Outcome::Unsat, SolvingResult::Unsatisfiable)
            );
            if !agree {
                hub.harness_error = Some(format!(
                    "SimSat verdict disagrees with CaDiCaL on instance {} call {}",
                    self.inst, call
                ));
            }
        }
        let result = match outcome {
            Outcome::Sat(assign) => {
                if !self.dpll.check_model(&assign, &a) {
                    hub.harness_error = Some(format!("SimSat produced a non-model (inst {} call {})", self.inst, call));
                }
                let reported = self.n_vars_with(&cfg);
                let mut model: Vec<Option<bool>> = Vec::with_capacity(reported);
                for v in 1..=reported {
                    let x = if v < assign.len() { assign[v] } else { 0 };
                    model.push(match x {
                        1 => Some(true),
                        -1 => Some(false),
                        _ => {
                            if cfg.unused_none {
                                None
                            } else {
                                Some(hub.rng.bool())
                            }
                        }
                    });
                }
                hub.sat_calls += 1;
                hub.instances[self.inst].sat += 1;
                hub.digest.u64(1);
                hub.result_seq.u64(1);
                for (i, b) in model.iter().enumerate() {
                    let x = match b {
                        Some(true) => 3u64,
                        Some(false) => 2,
                        None => 1,
                    };
                    hub.digest.u64(x ^ ((i as u64) << 8));
                    if *b == Some(true) {
                        hub.result_seq.u64(i as u64);
                    }
                }
                if hub.record {
                    let proj: Vec<bool> = model.iter().map(|b| *b == Some(true)).collect();
                    hub.instances[self.inst].models.push(proj);
                    hub.instances[self.inst].assumptions.push(a.clone());
                }
                SolvingResult::Satisfiable(Assignment::verif_new(model))
            }
            Outcome::Unsat => {
                hub.unsat_calls += 1;
                hub.instances[self.inst].unsat += 1;
                hub.digest.u64(0);
                hub.result_seq.u64(0);
                SolvingResult::Unsatisfiable
            }
            Outcome::Budget => unreachable!(),
        };
        drop(hub);
        self.listeners.iter().for_each(|l| l.solving_end(&result));
        result
    }

    fn n_vars(&self) -> usize {
        let cfg = self.hub.borrow().cfg;
        self.n_vars_with(&cfg)
    }

    fn add_listener(&mut self, listener: Box<dyn SolvingListener>) {
        self.listeners.push(listener);
    }

    fn reserve(&mut self, new_max_id: usize) {
        self.reserved = self.reserved.max(new_max_id);
        self.mirror.reserve(new_max_id);
        self.hub.borrow_mut().digest.u64(0x5E5E ^ new_max_id as u64);
    }
}

impl SimSat {
    fn n_vars_with(&self, cfg: &OracleCfg) -> usize {
        let base = self.dpll.max_var.max(self.reserved);
        if cfg.nvars_counts_assumed {
            base.max(self.max_assumed)
        } else {
            base
        }
    }

    /// number of variables a model must cover: everything declared or assumed
    fn n_vars_full(&self) -> usize {
        self.dpll.max_var.max(self.reserved).max(self.max_assumed)
    }
}

// ---------------------------------------------------------------------------------------------
// External backend in-process: the real `BufferedSatSolver` (DIMACS writer + reply parser) over
// `simchild::run` (hook H1). No threads, no processes.

use crate::simchild::{self, ChildFault, ChildVerdict, ReplyPlan};
use crustabri::sat::BufferedSatSolver;
use std::io::Read;

pub struct ChildHub {
    pub plan: ReplyPlan,
    /// redraw the reply plan at every call from the hub's stream
    pub vary_plan: bool,
    pub fault: Option<(u64, ChildFault)>,
    pub dimacs_errors: Vec<(u64, String)>,
    pub instances_checked: u64,
    pub bytes_in: u64,
    pub bytes_out: u64,
    pub sample_input: Option<String>,
    /// what the child's bytes carried at each call (for faithful-interpretation checks)
    pub last_verdict: Option<ChildVerdict>,
}

pub type CHub = Rc<RefCell<ChildHub>>;

pub fn new_child_hub(plan: ReplyPlan) -> CHub {
    Rc::new(RefCell::new(ChildHub {
        plan,
        vary_plan: false,
        fault: None,
        dimacs_errors: vec![],
        instances_checked: 0,
        bytes_in: 0,
        bytes_out: 0,
        sample_input: None,
        last_verdict: None,
    }))
}

pub fn ext_factory(hub: &Hub, chub: &CHub) -> Box<dyn Fn() -> Box<dyn SatSolver>> {
    let hub = Rc::clone(hub);
    let chub = Rc::clone(chub);
    Box::new(move || {
        let inst = {
            let mut h = hub.borrow_mut();
            h.instances.push(InstLog::default());
            h.instances.len() - 1
        };
        let hub = Rc::clone(&hub);
        let chub = Rc::clone(&chub);
        let solving_fn = move |mut r: crustabri::sat::DimacsInstanceRead| -> Box<dyn Read> {
            let mut input = String::new();
            r.read_to_string(&mut input).expect("reading the DIMACS instance");
            let mut h = hub.borrow_mut();
            let mut c = chub.borrow_mut();
            h.calls += 1;
            let call = h.calls;
            let snap = h.digest;
            h.call_digests.push(snap);
            h.instances[inst].calls += 1;
            h.digest.u64(0xE501E ^ ((inst as u64) << 32) ^ call);
            h.digest.str(&input);
            if h.calls > h.call_budget {
                h.budget_exceeded = true;
                drop(h);
                drop(c);
                std::panic::panic_any(BudgetExceeded);
            }
            let fault = match c.fault {
                Some((at, k)) if at == call => Some(k),
                _ => None,
            };
            let cfg = h.cfg;
            let plan = if c.vary_plan { ReplyPlan::draw(&mut h.rng) } else { c.plan };
            let run = simchild::run(&input, cfg.policy, &mut h.rng, cfg.seed, &plan, fault);
            c.instances_checked += 1;
            c.bytes_in += input.len() as u64;
            c.bytes_out += run.stdout.len() as u64;
            for e in &run.dimacs_errors {
                c.dimacs_errors.push((call, e.clone()));
            }
            if c.sample_input.is_none() && input.len() < 400 {
                c.sample_input = Some(input.clone());
            }
            if fault.is_some() && run.verdict == ChildVerdict::NoVerdict {
                h.fault_fired = true;
                h.digest.u64(0xFA17);
            }
            match &run.verdict {
                ChildVerdict::Sat(m) => {
                    h.sat_calls += 1;
                    h.instances[inst].sat += 1;
                    h.result_seq.u64(1);
                    for (i, b) in m.iter().enumerate() {
                        if *b {
                            h.result_seq.u64(i as u64);
                        }
                    }
                }
                ChildVerdict::Unsat => {
                    h.unsat_calls += 1;
                    h.instances[inst].unsat += 1;
                    h.result_seq.u64(0);
                }
                ChildVerdict::NoVerdict => h.result_seq.u64(2),
            }
            h.digest.bytes(&run.stdout);
            c.last_verdict = Some(run.verdict.clone());
            Box::new(std::io::Cursor::new(run.stdout))
        };
        Box::new(BufferedSatSolver::new(Box::new(solving_fn))) as Box<dyn SatSolver>
    })
}
