//! SimChild: the simulated external SAT-solver program. `run` is used (i) as the closure behind
//! the real `BufferedSatSolver` (hook H1, no threads), (ii) as the body of the simulated child
//! process under shuttle, (iii) compiled into the real executable `fakesat`.

use crate::dpll::{Dpll, Outcome, Policy};
use crate::prng::Rng;
use serde::{Deserialize, Serialize};

#[derive(Clone, Copy, Debug, PartialEq, Eq, Hash, Serialize, Deserialize)]
pub enum ChildFault {
    ExitWithoutOutput,
    StatusWithoutModel,
    ModelWithoutStatus,
    /// output cut at a byte offset strictly before the terminating " 0"
    Truncated,
    GarbageLine,
    TwoStatusLines,
    LiteralOutOfRange,
    /// like Truncated but inside the comment/banner part or the status line
    CrashMidOutput,
}

pub const CHILD_FAULTS: [ChildFault; 8] = [
    ChildFault::ExitWithoutOutput,
    ChildFault::StatusWithoutModel,
    ChildFault::ModelWithoutStatus,
    ChildFault::Truncated,
    ChildFault::GarbageLine,
    ChildFault::TwoStatusLines,
    ChildFault::LiteralOutOfRange,
    ChildFault::CrashMidOutput,
];

impl ChildFault {
    pub fn name(self) -> &'static str {
        match self {
            ChildFault::ExitWithoutOutput => "exit-without-output",
            ChildFault::StatusWithoutModel => "status-without-model",
            ChildFault::ModelWithoutStatus => "model-without-status",
            ChildFault::Truncated => "truncated",
            ChildFault::GarbageLine => "garbage-line",
            ChildFault::TwoStatusLines => "two-status-lines",
            ChildFault::LiteralOutOfRange => "literal-out-of-range",
            ChildFault::CrashMidOutput => "crash-mid-output",
        }
    }
    pub fn from_name(s: &str) -> Option<Self> {
        CHILD_FAULTS.iter().copied().find(|f| f.name() == s)
    }
}

/// Legal variations of a well-formed reply.
#[derive(Clone, Copy, Debug, PartialEq, Eq, Hash, Serialize, Deserialize)]
pub struct ReplyPlan {
    /// number of `c ...` lines before the status line
    pub comments_before: usize,
    /// number of `c ...` lines after the model
    pub comments_after: usize,
    /// bytes per comment line (>= 2)
    pub comment_width: usize,
    /// literals per `v` line (0 = all on one line)
    pub v_split: usize,
    /// emit bare `v` lines and empty lines in between
    pub bare_lines: bool,
    /// terminating 0 on its own `v 0` line
    pub zero_alone: bool,
}

impl ReplyPlan {
    pub fn plain() -> Self {
        ReplyPlan { comments_before: 0, comments_after: 0, comment_width: 8, v_split: 0, bare_lines: false, zero_alone: false }
    }
    pub fn draw(rng: &mut Rng) -> Self {
        if rng.chance(1, 3) {
            return Self::plain();
        }
        ReplyPlan {
            comments_before: if rng.bool() { rng.below(4) } else { 0 },
            comments_after: if rng.chance(1, 3) { rng.below(3) } else { 0 },
            comment_width: rng.range(2, 40),
            v_split: if rng.bool() { rng.range(1, 6) } else { 0 },
            bare_lines: rng.chance(1, 4),
            zero_alone: rng.chance(1, 4),
        }
    }
}

#[derive(Clone, Debug, PartialEq, Eq)]
pub struct ParsedDimacs {
    pub header_vars: usize,
    pub header_clauses: usize,
    pub clauses: Vec<Vec<i32>>,
    pub max_lit_var: usize,
}

/// Strict DIMACS validator: `p cnf V C`, exactly C zero-terminated clauses (one per line, as
/// crustabri writes them; clauses spanning lines are accepted too), |literal| <= V, nothing else.
/// Returns the parse and the list of well-formedness errors (empty = well-formed).
pub fn parse_dimacs(text: &str) -> (Option<ParsedDimacs>, Vec<String>) {
    let mut errors = vec![];
    let mut lines = text.split('\n');
    let header = match lines.next() {
        Some(h) => h,
        None => return (None, vec!["empty input".into()]),
    };
    let hw: Vec<&str> = header.split(' ').collect();
    if hw.len() != 4 || hw[0] != "p" || hw[1] != "cnf" {
        return (None, vec![format!("bad header line {:?}", header)]);
    }
    let (v, c) = match (hw[2].parse::<usize>(), hw[3].parse::<usize>()) {
        (Ok(v), Ok(c)) => (v, c),
        _ => return (None, vec![format!("bad header numbers {:?}", header)]),
    };
    let mut clauses = vec![];
    let mut cur: Vec<i32> = vec![];
    let mut max_var = 0usize;
    if !text.ends_with('\n') {
        errors.push("input does not end with a newline".into());
    }
    for line in lines {
        if line.is_empty() {
            continue;
        }
        for w in line.split(' ') {
            if w.is_empty() {
                errors.push(format!("double space or trailing space in line {:?}", line));
                continue;
            }
            match w.parse::<i64>() {
                Ok(0) => clauses.push(std::mem::take(&mut cur)),
                Ok(l) if w == l.to_string() => {
                    max_var = max_var.max(l.unsigned_abs() as usize);
                    cur.push(l as i32);
                }
                _ => errors.push(format!("token {:?} is not a literal", w)),
            }
        }
        if !cur.is_empty() {
            errors.push(format!("clause not terminated on its line: {:?}", line));
        }
    }
    if !cur.is_empty() {
        errors.push("last clause not terminated by 0".into());
        clauses.push(cur);
    }
    if clauses.len() != c {
        errors.push(format!("header announces {} clauses, {} present", c, clauses.len()));
    }
    if max_var > v {
        errors.push(format!("header announces {} variables, literal on variable {} present", v, max_var));
    }
    (
        Some(ParsedDimacs { header_vars: v, header_clauses: c, clauses, max_lit_var: max_var }),
        errors,
    )
}

#[derive(Clone, Debug, PartialEq, Eq)]
pub enum ChildVerdict {
    Sat(Vec<bool>), // index 0 = variable 1, length = header_vars
    Unsat,
    NoVerdict,
}

pub struct ChildRun {
    pub stdout: Vec<u8>,
    pub verdict: ChildVerdict,
    pub dimacs_errors: Vec<String>,
    pub exit_code: i32,
}

/// Runs the child on a complete stdin text.
pub fn run(
    input: &str,
    policy: Policy,
    rng: &mut Rng,
    bias_seed: u64,
    plan: &ReplyPlan,
    fault: Option<ChildFault>,
) -> ChildRun {
    let (parsed, errors) = parse_dimacs(input);
    let parsed = match parsed {
        Some(p) => p,
        None => {
            return ChildRun {
                stdout: b"c parse error\ns UNKNOWN\n".to_vec(),
                verdict: ChildVerdict::NoVerdict,
                dimacs_errors: errors,
                exit_code: 1,
            }
        }
    };
    let mut d = Dpll::default();
    d.ensure_var(parsed.header_vars.max(parsed.max_lit_var));
    for c in &parsed.clauses {
        d.add_clause(c);
    }
    let mut steps = 2_000_000u64;
    let pol = if policy == Policy::Cadical { Policy::MaxTrue } else { policy };
    let outcome = d.solve(&[], pol, rng, bias_seed, &mut steps);
    let verdict = match outcome {
        Outcome::Sat(a) => ChildVerdict::Sat(
            (1..=parsed.header_vars)
                .map(|v| v < a.len() && a[v] == 1)
                .collect(),
        ),
        Outcome::Unsat => ChildVerdict::Unsat,
        Outcome::Budget => ChildVerdict::NoVerdict,
    };
    let (stdout, exit_code, verdict) = render(&verdict, parsed.header_vars, plan, fault, rng);
    ChildRun { stdout, verdict, dimacs_errors: errors, exit_code }
}

fn comment(out: &mut String, width: usize, k: usize) {
    out.push_str("c ");
    for i in 0..width.saturating_sub(2) {
        out.push((b'a' + ((i + k) % 26) as u8) as char);
    }
    out.push('\n');
}

/// Renders a verdict according to the plan and fault; returns bytes, exit code and the verdict the
/// bytes actually carry (NoVerdict for every fault kind).
pub fn render(
    verdict: &ChildVerdict,
    n_vars: usize,
    plan: &ReplyPlan,
    fault: Option<ChildFault>,
    rng: &mut Rng,
) -> (Vec<u8>, i32, ChildVerdict) {
    let mut out = String::new();
    if fault == Some(ChildFault::ExitWithoutOutput) {
        return (vec![], 1, ChildVerdict::NoVerdict);
    }
    for k in 0..plan.comments_before {
        comment(&mut out, plan.comment_width, k);
    }
    let banner_end = out.len();
    if fault == Some(ChildFault::GarbageLine) {
        out.push_str("Segmentation fault (core dumped)\n");
    }
    let mut model_start = out.len();
    let mut model_end_before_zero = out.len();
    match verdict {
        ChildVerdict::NoVerdict => {
            out.push_str("s UNKNOWN\n");
        }
        ChildVerdict::Unsat => {
            if fault != Some(ChildFault::ModelWithoutStatus) {
                out.push_str("s UNSATISFIABLE\n");
                if fault == Some(ChildFault::TwoStatusLines) {
                    out.push_str("s UNSATISFIABLE\n");
                }
            }
            model_start = out.len();
            model_end_before_zero = out.len();
        }
        ChildVerdict::Sat(m) => {
            if fault != Some(ChildFault::ModelWithoutStatus) {
                out.push_str("s SATISFIABLE\n");
                if fault == Some(ChildFault::TwoStatusLines) {
                    out.push_str("s SATISFIABLE\n");
                }
            }
            model_start = out.len();
            if fault != Some(ChildFault::StatusWithoutModel) {
                let mut lits: Vec<i64> = m
                    .iter()
                    .enumerate()
                    .map(|(i, b)| if *b { (i + 1) as i64 } else { -((i + 1) as i64) })
                    .collect();
                if fault == Some(ChildFault::LiteralOutOfRange) {
                    lits.push((n_vars + 1 + rng.below(3)) as i64);
                }
                let per = if plan.v_split == 0 { usize::MAX } else { plan.v_split };
                let mut first = true;
                let mut count_in_line = 0;
                for l in &lits {
                    if first || count_in_line == per {
                        if !first {
                            out.push('\n');
                            if plan.bare_lines {
                                out.push_str("v\n");
                            }
                        }
                        out.push('v');
                        count_in_line = 0;
                        first = false;
                    }
                    out.push(' ');
                    out.push_str(&l.to_string());
                    count_in_line += 1;
                }
                if first {
                    // no variable at all
                    out.push('v');
                }
                model_end_before_zero = out.len();
                if plan.zero_alone && !lits.is_empty() {
                    out.push_str("\nv 0\n");
                } else {
                    out.push_str(" 0\n");
                }
            } else {
                model_end_before_zero = out.len();
            }
        }
    }
    for k in 0..plan.comments_after {
        comment(&mut out, plan.comment_width, k + 7);
    }
    let mut bytes = out.into_bytes();
    let mut carried = verdict.clone();
    let mut exit_code = match verdict {
        ChildVerdict::Sat(_) => 10,
        ChildVerdict::Unsat => 20,
        ChildVerdict::NoVerdict => 0,
    };
    match fault {
        None => {}
        Some(ChildFault::Truncated) => {
            // cut strictly before the terminating " 0": anywhere in [model_start, model_end_before_zero]
            if let ChildVerdict::Sat(_) = verdict {
                let cut = model_start + rng.below(model_end_before_zero - model_start + 1);
                bytes.truncate(cut);
            } else {
                // UNSAT/unknown: cut inside the status line
                let cut = banner_end + rng.below((model_start - banner_end).saturating_sub(1).max(1));
                bytes.truncate(cut);
            }
            carried = ChildVerdict::NoVerdict;
            exit_code = 137;
        }
        Some(ChildFault::CrashMidOutput) => {
            let limit = model_start.saturating_sub(1).max(1).min(bytes.len());
            let cut = rng.below(limit);
            bytes.truncate(cut);
            carried = ChildVerdict::NoVerdict;
            exit_code = 139;
        }
        Some(_) => {
            carried = ChildVerdict::NoVerdict;
            exit_code = 1;
        }
    }
    // a fault applied to an UNSAT verdict may leave a well-formed UNSAT reply (e.g. StatusWithoutModel,
    // LiteralOutOfRange, ModelWithoutStatus has no status at all): say what the bytes carry
    if let (Some(f), ChildVerdict::Unsat) = (fault, verdict) {
        carried = match f {
            ChildFault::StatusWithoutModel | ChildFault::LiteralOutOfRange => ChildVerdict::Unsat,
            _ => ChildVerdict::NoVerdict,
        };
    }
    (bytes, exit_code, carried)
}
