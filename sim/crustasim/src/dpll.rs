//! A complete DPLL with unit propagation whose decision order and polarity are drawn from a
//! seeded stream under a policy. This is the "environment" of crustabri's SAT-based
//! procedures: it may legally return any model.

use crate::prng::{splitmix, Rng};
use serde::{Deserialize, Serialize};

#[derive(Clone, Copy, Debug, PartialEq, Eq, Hash, Serialize, Deserialize)]
pub enum Policy {
    /// random order, random polarity
    Uniform,
    /// decide false first: subset-small models, long grow-until-UNSAT chains
    MinTrue,
    /// decide true first (CaDiCaL-like on these encodings)
    MaxTrue,
    /// per-variable fixed preferred polarity derived from the oracle seed
    Biased,
    /// delegate to the real embedded CaDiCaL (shipped behaviour; baseline)
    Cadical,
    /// for frameworks too large for a plain DPLL: decided by the mirrored CaDiCaL, the model is
    /// randomised by assumption steering (impose seeded literals one by one, keep those that stay SAT)
    Steer,
}

pub const SIM_POLICIES: [Policy; 4] = [Policy::Uniform, Policy::MinTrue, Policy::MaxTrue, Policy::Biased];

#[derive(Default, Clone)]
pub struct Dpll {
    pub clauses: Vec<Vec<i32>>,
    occ: Vec<Vec<u32>>, // index: lit_index
    pub max_var: usize,
    active: Vec<bool>,
    pub has_empty: bool,
}

fn li(l: i32) -> usize {
    let v = l.unsigned_abs() as usize;
    2 * v + (l < 0) as usize
}

pub enum Outcome {
    Sat(Vec<i8>), // index by var, 1 = true, -1 = false, 0 = unassigned (inactive var)
    Unsat,
    Budget,
}

impl Dpll {
    pub fn ensure_var(&mut self, v: usize) {
        if v > self.max_var {
            self.max_var = v;
        }
        if self.occ.len() < 2 * (v + 1) {
            self.occ.resize(2 * (v + 1), Vec::new());
            self.active.resize(v + 1, false);
        }
    }

    pub fn add_clause(&mut self, cl: &[i32]) {
        if cl.is_empty() {
            self.has_empty = true;
        }
        let idx = self.clauses.len() as u32;
        for &l in cl {
            let v = l.unsigned_abs() as usize;
            self.ensure_var(v);
            self.active[v] = true;
            self.occ[li(l)].push(idx);
        }
        self.clauses.push(cl.to_vec());
    }

    pub fn is_active(&self, v: usize) -> bool {
        v < self.active.len() && self.active[v]
    }

    /// Solves under assumptions. `steps` is decremented; Budget when exhausted.
    pub fn solve(
        &self,
        assumptions: &[i32],
        policy: Policy,
        rng: &mut Rng,
        bias_seed: u64,
        steps: &mut u64,
    ) -> Outcome {
        let mut nv = self.max_var;
        for a in assumptions {
            nv = nv.max(a.unsigned_abs() as usize);
        }
        if self.has_empty {
            return Outcome::Unsat;
        }
        let mut st = State {
            d: self,
            assign: vec![0i8; nv + 1],
            trail: Vec::with_capacity(nv + 1),
            qhead: 0,
        };
        for &a in assumptions {
            if !st.enqueue(a) {
                return Outcome::Unsat;
            }
        }
        for cl in &self.clauses {
            if cl.len() == 1 && !st.enqueue(cl[0]) {
                return Outcome::Unsat;
            }
        }
        if !st.propagate(steps) {
            return Outcome::Unsat;
        }
        if *steps == 0 {
            return Outcome::Budget;
        }
        // decision order
        let mut order: Vec<u32> = (1..=self.max_var as u32).filter(|v| self.active[*v as usize]).collect();
        rng.shuffle(&mut order);
        let pol = |v: u32, rng: &mut Rng| -> bool {
            match policy {
                Policy::Uniform | Policy::Cadical | Policy::Steer => rng.bool(),
                Policy::MinTrue => false,
                Policy::MaxTrue => true,
                Policy::Biased => {
                    let mut x = bias_seed ^ (v as u64).wrapping_mul(0x9E3779B97F4A7C15);
                    splitmix(&mut x) & 1 == 1
                }
            }
        };
        // decision stack: (trail mark, literal, flipped)
        let mut stack: Vec<(usize, i32, bool)> = vec![];
        loop {
            let next = order.iter().copied().find(|v| st.assign[*v as usize] == 0);
            let v = match next {
                None => return Outcome::Sat(st.assign),
                Some(v) => v,
            };
            let lit = if pol(v, rng) { v as i32 } else { -(v as i32) };
            stack.push((st.trail.len(), lit, false));
            st.enqueue(lit);
            loop {
                if *steps == 0 {
                    return Outcome::Budget;
                }
                *steps -= 1;
                if st.propagate(steps) {
                    break;
                }
                // conflict: backtrack chronologically
                loop {
                    match stack.pop() {
                        None => return Outcome::Unsat,
                        Some((mark, l, flipped)) => {
                            st.undo(mark);
                            if !flipped {
                                stack.push((mark, -l, true));
                                st.enqueue(-l);
                                break;
                            }
                        }
                    }
                }
            }
        }
    }

    /// Truth-table free check that `assign` satisfies all clauses and the assumptions.
    pub fn check_model(&self, assign: &[i8], assumptions: &[i32]) -> bool {
        let val = |l: i32| -> bool {
            let v = l.unsigned_abs() as usize;
            v < assign.len() && assign[v] == if l > 0 { 1 } else { -1 }
        };
        assumptions.iter().all(|a| val(*a)) && self.clauses.iter().all(|c| c.iter().any(|l| val(*l)))
    }
}

struct State<'a> {
    d: &'a Dpll,
    assign: Vec<i8>,
    trail: Vec<i32>,
    qhead: usize,
}

impl State<'_> {
    fn value(&self, l: i32) -> i8 {
        let a = self.assign[l.unsigned_abs() as usize];
        if l > 0 {
            a
        } else {
            -a
        }
    }
    fn enqueue(&mut self, l: i32) -> bool {
        match self.value(l) {
            1 => true,
            -1 => false,
            _ => {
                self.assign[l.unsigned_abs() as usize] = if l > 0 { 1 } else { -1 };
                self.trail.push(l);
                true
            }
        }
    }
    fn undo(&mut self, mark: usize) {
        while self.trail.len() > mark {
            let l = self.trail.pop().unwrap();
            self.assign[l.unsigned_abs() as usize] = 0;
        }
        self.qhead = mark;
    }
    fn propagate(&mut self, steps: &mut u64) -> bool {
        while self.qhead < self.trail.len() {
            let l = self.trail[self.qhead];
            self.qhead += 1;
            let neg = li(-l);
            if neg >= self.d.occ.len() {
                continue;
            }
            for &ci in &self.d.occ[neg] {
                if *steps > 0 {
                    *steps -= 1;
                }
                let cl = &self.d.clauses[ci as usize];
                let mut unassigned = 0;
                let mut last = 0;
                let mut sat = false;
                for &x in cl {
                    match self.value(x) {
                        1 => {
                            sat = true;
                            break;
                        }
                        0 => {
                            unassigned += 1;
                            last = x;
                        }
                        _ => {}
                    }
                }
                if sat {
                    continue;
                }
                if unassigned == 0 {
                    return false;
                }
                if unassigned == 1 {
                    // `last` is unassigned, cannot fail
                    let v = last.unsigned_abs() as usize;
                    self.assign[v] = if last > 0 { 1 } else { -1 };
                    self.trail.push(last);
                }
            }
        }
        true
    }
}
