//! C14 — written frameworks and answers read back to the same objects; under injected write
//! faults (enumerated at every byte offset) the writers return Err and emit only a prefix.

use crate::cases::{string_label, usize_label};
use crate::framework::{Property, RunResult, Tier, Violation};
use crate::prng::{Digest, Rng};
use crate::refstore::{RefStore, Upd, L};
use crate::streams::{ref_apx, FaultyRead, FaultyWrite, ReadPlan, RefParse, WritePlan};
use crustabri::aa::{AAFramework, Argument, ArgumentSet};
use crustabri::io::{AspartixReader, AspartixWriter, Iccma23Writer, InstanceReader, ResponseWriter};
use serde::{Deserialize, Serialize};
use serde_json::{json, Value};
use std::io::Write;
use std::panic::{catch_unwind, AssertUnwindSafe};

#[derive(Clone, Copy, Debug, PartialEq, Eq, Hash, Serialize, Deserialize)]
pub enum WOp {
    Framework,
    ExtApx,
    ExtIccma,
    Status(bool, bool), // (iccma writer?, status)
    NoExtension(bool),
}

#[derive(Clone, Copy, Debug, PartialEq, Eq, Hash, Serialize, Deserialize)]
pub enum WFault {
    ErrorAt(usize),
    ZeroAt(usize),
    FailFlush,
    Short { seed: u64, max: usize, interrupt_pct: usize },
}

#[derive(Clone, Debug, Serialize, Deserialize)]
pub struct C14Case {
    pub init: Vec<L>,
    pub ops: Vec<Upd>,
    /// members of the extension to write, as labels (any order; must be live)
    pub ext: Vec<L>,
    pub wops: Vec<WOp>,
    pub plan: Option<Vec<(WOp, WFault)>>,
    pub read_chunk_seed: u64,
    /// 0: labels `a<k>`; n > 0: labels from a pool of NESTED identifiers (prefixes and suffixes of
    /// one another: a, ab, abc, b, bc, c, aa, aaa, a_, _a …) rotated by n
    #[serde(default)]
    pub label_scheme: u64,
}

const NESTED: [&str; 20] = ["a", "ab", "abc", "b", "bc", "c", "aa", "aaa", "a_", "_a", "x", "x_", "_y1", "y1", "x1", "x10", "x_1", "A", "Ab", "aB"];

fn label_of(scheme: u64, l: L) -> String {
    if scheme == 0 || (l as usize) >= NESTED.len() {
        string_label(l)
    } else {
        NESTED[(l as usize + scheme as usize) % NESTED.len()].to_string()
    }
}

/// usize labels of the ICCMA'23 answer writer: with a non-zero scheme the first labels are the
/// widest values a usize holds (20 decimal digits on 64-bit targets; S14i)
const WIDE: [usize; 12] = [
    usize::MAX,
    usize::MAX - 1,
    10_000_000_000_000_000_000,
    9_999_999_999_999_999_999,
    1 << 63,
    (1 << 63) - 1,
    12_345_678_901_234_567_890,
    1_000_000_000_000_000_000,
    4_294_967_296,
    4_294_967_295,
    10_000_000_000_000_000_001,
    18_000_000_000_000_000_000,
];

fn ulabel_of(scheme: u64, l: L) -> usize {
    if scheme == 0 || (l as usize) >= WIDE.len() {
        usize_label(l)
    } else {
        WIDE[(l as usize + scheme as usize) % WIDE.len()]
    }
}

pub struct C14;

fn build<T: crustabri::utils::LabelType>(case: &C14Case, mk: &dyn Fn(L) -> T) -> (AAFramework<T>, RefStore) {
    let labels: Vec<T> = case.init.iter().map(|l| mk(*l)).collect();
    let mut af = AAFramework::new_with_argument_set(ArgumentSet::new_with_labels(&labels));
    let mut store = RefStore::default();
    for l in &case.init {
        store.apply(&Upd::AddArg(*l));
    }
    for u in &case.ops {
        store.apply(u);
        let _ = match u {
            Upd::AddArg(l) => {
                af.new_argument(mk(*l));
                Ok(())
            }
            Upd::DelArg(l) => af.remove_argument(&mk(*l)),
            Upd::AddAtt(a, b) => af.new_attack(&mk(*a), &mk(*b)),
            Upd::DelAtt(a, b) => af.remove_attack(&mk(*a), &mk(*b)),
        };
    }
    (af, store)
}

fn do_write(op: WOp, afs: &AAFramework<String>, afu: &AAFramework<usize>, ext: &[L], scheme: u64, w: &mut dyn Write) -> Result<(), String> {
    match op {
        WOp::Framework => AspartixWriter.write_framework(afs, w).map_err(|e| e.to_string()),
        WOp::ExtApx => {
            let e: Vec<&Argument<String>> = ext.iter().map(|l| afs.argument_set().get_argument(&label_of(scheme, *l)).unwrap()).collect();
            ResponseWriter::<String>::write_single_extension(&AspartixWriter, w, &e).map_err(|e| e.to_string())
        }
        WOp::ExtIccma => {
            let e: Vec<&Argument<usize>> = ext.iter().map(|l| afu.argument_set().get_argument(&ulabel_of(scheme, *l)).unwrap()).collect();
            Iccma23Writer.write_single_extension(w, &e).map_err(|e| e.to_string())
        }
        WOp::Status(true, b) => Iccma23Writer.write_acceptance_status(w, b).map_err(|e| e.to_string()),
        WOp::Status(false, b) => ResponseWriter::<String>::write_acceptance_status(&AspartixWriter, w, b).map_err(|e| e.to_string()),
        WOp::NoExtension(true) => Iccma23Writer.write_no_extension(w).map_err(|e| e.to_string()),
        WOp::NoExtension(false) => ResponseWriter::<String>::write_no_extension(&AspartixWriter, w).map_err(|e| e.to_string()),
    }
}

/// answer grammars, written independently of the writers
fn parse_iccma_ext(bytes: &[u8]) -> Option<Vec<String>> {
    let s = std::str::from_utf8(bytes).ok()?;
    let s = s.strip_suffix('\n')?;
    if s.contains('\n') {
        return None;
    }
    let rest = s.strip_prefix('w')?;
    if rest.is_empty() {
        return Some(vec![]);
    }
    let mut out = vec![];
    let rest = rest.strip_prefix(' ')?;
    for t in rest.split(' ') {
        if t.is_empty() {
            return None;
        }
        out.push(t.to_string());
    }
    Some(out)
}

fn parse_apx_ext(bytes: &[u8]) -> Option<Vec<String>> {
    let s = std::str::from_utf8(bytes).ok()?;
    let s = s.strip_suffix('\n')?;
    if s.contains('\n') {
        return None;
    }
    let inner = s.strip_prefix('[')?.strip_suffix(']')?;
    if inner.is_empty() {
        return Some(vec![]);
    }
    let mut out = vec![];
    for t in inner.split(',') {
        if t.is_empty() || t.contains(' ') {
            return None;
        }
        out.push(t.to_string());
    }
    Some(out)
}

fn show(out: &[u8]) -> String {
    if out.len() <= 600 {
        String::from_utf8_lossy(out).to_string()
    } else {
        format!("{}…[{} bytes in all]…{}", String::from_utf8_lossy(&out[..200]), out.len(), String::from_utf8_lossy(&out[out.len() - 200..]))
    }
}

/// halves and quarters of a long list first (big cases), single elements afterwards
fn chunk_removals<T: Clone>(v: &[T]) -> Vec<Vec<T>> {
    let n = v.len();
    let mut out = vec![];
    if n > 8 {
        for parts in [2usize, 4, 8, 16, 32, 64] {
            let step = n.div_ceil(parts);
            let mut at = 0;
            while at < n {
                let mut w = v[..at].to_vec();
                w.extend_from_slice(&v[(at + step).min(n)..]);
                out.push(w);
                at += step;
            }
        }
    }
    out
}

impl Property for C14 {
    fn id(&self) -> &'static str {
        "C14"
    }
    fn level(&self) -> &'static str {
        "fault_enumeration"
    }
    fn runs(&self, tier: Tier) -> u64 {
        match tier {
            Tier::Quick => 3_000_000,
            Tier::Thorough => 30_000_000,
        }
    }
    fn gen(&self, run_seed: u64, _tier: Tier) -> Value {
        let mut rng = Rng::sub(run_seed, "workload");
        // 1 run in 2500: a big framework / extension (hundreds to thousands of labels: block sizes,
        // buffer boundaries, per-call limits of a writer); fault offsets are then sampled
        let big = rng.chance(1, 2500);
        let universe = if big { *rng.pick(&[257usize, 300, 512, 513, 700, 1025, 2049, 4097, 5000]) } else { rng.range(1, 7) };
        let mut init: Vec<L> = (0..universe as L).filter(|_| big || rng.chance(1, 2)).collect();
        rng.shuffle(&mut init);
        let mut store = RefStore::default();
        for l in &init {
            store.apply(&Upd::AddArg(*l));
        }
        let mut ops = vec![];
        let n_ops = if big { universe / 2 + rng.below(universe) } else { rng.range(0, 25) };
        let weights: [usize; 4] = if big { [1, 1, 30, 2] } else { [3, 2, 6, 2] };
        for _ in 0..n_ops {
            let any = |rng: &mut Rng| rng.below(universe) as L;
            let u = match rng.weighted(&weights) {
                0 => Upd::AddArg(any(&mut rng)),
                1 => Upd::DelArg(any(&mut rng)),
                2 => Upd::AddAtt(any(&mut rng), any(&mut rng)),
                _ => Upd::DelAtt(any(&mut rng), any(&mut rng)),
            };
            store.apply(&u);
            ops.push(u);
        }
        let live: Vec<L> = store.live.keys().copied().collect();
        let keep_all = big && rng.chance(1, 3);
        let mut ext: Vec<L> = live.iter().copied().filter(|_| keep_all || rng.bool()).collect();
        rng.shuffle(&mut ext);
        if rng.chance(1, 5) {
            ext.clear();
        }
        let mut wops = vec![WOp::Framework, WOp::ExtApx, WOp::ExtIccma];
        wops.push(WOp::Status(rng.bool(), rng.bool()));
        wops.push(WOp::NoExtension(rng.bool()));
        let label_scheme = if !big && rng.chance(1, 3) { 1 + rng.below(NESTED.len()) as u64 } else { 0 };
        serde_json::to_value(C14Case { init, ops, ext, wops, plan: None, read_chunk_seed: rng.next_u64() >> 20, label_scheme }).unwrap()
    }
    fn exec(&self, case: &Value) -> RunResult {
        let mut case: C14Case = serde_json::from_value(case.clone()).expect("C14 case");
        let mut r = RunResult::default();
        let scheme = case.label_scheme;
        let (afs, store) = build(&case, &|l| label_of(scheme, l));
        let (afu, _) = build(&case, &|l| ulabel_of(scheme, l));
        case.ext.retain(|l| store.live.contains_key(l));
        let mut seen = vec![];
        case.ext.retain(|l| {
            if seen.contains(l) {
                false
            } else {
                seen.push(*l);
                true
            }
        });
        let args = store.args_by_id();
        let exp_labels: Vec<String> = args.iter().map(|(_, l)| label_of(scheme, *l)).collect();
        let pos_of_id = |id: usize| args.iter().position(|(i, _)| *i == id).unwrap();
        let mut exp_atts: Vec<(usize, usize)> = store.attacks.iter().map(|(a, b)| (pos_of_id(*a), pos_of_id(*b))).collect();
        exp_atts.sort();
        let mut inter = Digest::default();
        let wops: Vec<WOp> = match &case.plan {
            Some(p) => p.iter().map(|(w, _)| *w).collect(),
            None => case.wops.clone(),
        };
        for op in &wops {
            let site = |v: Violation| v.at("write", format!("{:?}", op).split('(').next().unwrap().to_string());
            // fault-free output
            let mut fw = FaultyWrite::new(WritePlan::plain());
            let res = catch_unwind(AssertUnwindSafe(|| do_write(*op, &afs, &afu, &case.ext, case.label_scheme, &mut fw)));
            let out = match res {
                Ok(Ok(())) => fw.accepted.clone(),
                Ok(Err(e)) => {
                    r.violations.push(site(Violation::new("C14", "write-failed", format!("{:?} failed without any fault: {}", op, e))));
                    break;
                }
                Err(_) => {
                    r.violations.push(site(Violation::new("C14", "panic", format!("{:?} panicked without any fault", op))));
                    break;
                }
            };
            r.count("bytes_written", out.len() as u64);
            inter.bytes(&out);
            r.digest.bytes(&out);
            let shown = show(&out);
            // read-back oracle
            let bad = match op {
                WOp::Framework => {
                    let by_ref = ref_apx(&out);
                    let mut rd = FaultyRead::new(&out, ReadPlan { chunk_seed: case.read_chunk_seed, max_chunk: 5, interrupt_pct: 10, error_at: None });
                    let back = AspartixReader::default().read(&mut rd);
                    match (by_ref, back) {
                        (RefParse::WellFormed(l, mut a), Ok(af2)) => {
                            a.sort();
                            let l2: Vec<String> = af2.argument_set().iter().map(|x| x.label().clone()).collect();
                            let p2 = |id: usize| af2.argument_set().iter().position(|x| x.id() == id).unwrap();
                            let mut a2: Vec<(usize, usize)> = af2.iter_attacks().map(|x| (p2(x.attacker().id()), p2(x.attacked().id()))).collect();
                            a2.sort();
                            if l != exp_labels || a != exp_atts {
                                Some(format!("written framework {:?} declares arguments {:?} attacks {:?}; the framework has {:?} / {:?}", shown, l, a, exp_labels, exp_atts))
                            } else if l2 != exp_labels || a2 != exp_atts {
                                Some(format!("written framework {:?} reads back as {:?} / {:?}; the framework has {:?} / {:?}", shown, l2, a2, exp_labels, exp_atts))
                            } else {
                                None
                            }
                        }
                        (c, b) => Some(format!("written framework {:?} is not a well-formed Aspartix file (reference parser: {:?}, reader ok: {})", shown, c, b.is_ok())),
                    }
                }
                WOp::ExtApx | WOp::ExtIccma => {
                    let parsed = if *op == WOp::ExtApx { parse_apx_ext(&out) } else { parse_iccma_ext(&out) };
                    let exp: Vec<String> = case.ext.iter().map(|l| if *op == WOp::ExtApx { label_of(scheme, *l) } else { ulabel_of(scheme, *l).to_string() }).collect();
                    match parsed {
                        None => Some(format!("extension line {:?} does not follow the answer grammar", shown)),
                        Some(mut p) => {
                            let mut e = exp.clone();
                            p.sort();
                            e.sort();
                            if p != e {
                                Some(format!("extension line {:?} reads back to {:?}, written was {:?}", shown, p, e))
                            } else {
                                None
                            }
                        }
                    }
                }
                WOp::Status(_, b) => {
                    if out == if *b { b"YES\n".to_vec() } else { b"NO\n".to_vec() } {
                        None
                    } else {
                        Some(format!("status {} written as {:?}", b, shown))
                    }
                }
                WOp::NoExtension(_) => {
                    if out == b"NO\n" {
                        None
                    } else {
                        Some(format!("'no extension' written as {:?}", shown))
                    }
                }
            };
            if let Some(msg) = bad {
                r.violations.push(site(Violation::new("C14", "read-back", msg)));
                break;
            }
            // fault enumeration
            let faults: Vec<WFault> = match &case.plan {
                Some(p) => p.iter().filter(|(w, _)| w == op).map(|(_, f)| *f).collect(),
                None => {
                    let mut f = vec![WFault::FailFlush];
                    let mut prng = Rng::sub(case.read_chunk_seed ^ out.len() as u64, "faults");
                    let offsets: Vec<usize> = if out.len() <= 200 { (0..out.len()).collect() } else { (0..48).map(|_| prng.below(out.len())).collect() };
                    for k in offsets {
                        f.push(WFault::ErrorAt(k));
                        if k % 3 == 0 {
                            f.push(WFault::ZeroAt(k));
                        }
                    }
                    for _ in 0..3 {
                        f.push(WFault::Short { seed: 1 + (prng.next_u64() >> 20), max: *prng.pick(&[1usize, 2, 5]), interrupt_pct: *prng.pick(&[0usize, 30]) });
                    }
                    f
                }
            };
            for f in &faults {
                let mut plan = WritePlan::plain();
                let mut must_fail = true;
                let kind = match f {
                    WFault::ErrorAt(k) => {
                        plan.error_at = Some(*k);
                        must_fail = *k < out.len();
                        "write_error"
                    }
                    WFault::ZeroAt(k) => {
                        plan.zero_at = Some(*k);
                        must_fail = *k < out.len();
                        "zero_write"
                    }
                    WFault::FailFlush => {
                        plan.fail_flush = true;
                        "flush_error"
                    }
                    WFault::Short { seed, max, interrupt_pct } => {
                        plan.short_seed = *seed;
                        plan.max_accept = *max;
                        plan.interrupt_pct = *interrupt_pct;
                        must_fail = false;
                        "short_writes_eintr"
                    }
                };
                let mut fw = FaultyWrite::new(plan);
                let res = catch_unwind(AssertUnwindSafe(|| do_write(*op, &afs, &afu, &case.ext, case.label_scheme, &mut fw)));
                r.count(&format!("faults_injected_{}", kind), 1);
                if fw.errors > 0 {
                    r.count(&format!("faults_fired_{}", kind), 1);
                }
                inter.u64(fw.accepted.len() as u64);
                let fsite = |v: Violation| site(v).at("fault", kind).at("inject", serde_json::to_string(&(*op, *f)).unwrap());
                match res {
                    Err(_) => {
                        r.violations.push(fsite(Violation::new("C14", "panic-under-write-fault", format!("{:?} panicked under {:?}", op, f))));
                        break;
                    }
                    Ok(Ok(())) => {
                        if must_fail {
                            r.violations.push(fsite(Violation::new("C14", "write-error-swallowed", format!("{:?} returned Ok although the sink failed ({:?}) after {} of {} bytes", op, f, fw.accepted.len(), out.len()))));
                            break;
                        }
                        if fw.accepted != out {
                            r.violations.push(fsite(Violation::new("C14", "output-differs-under-short-writes", format!("{:?} under {:?} emitted {:?} instead of {:?}", op, f, show(&fw.accepted), shown))));
                            break;
                        }
                    }
                    Ok(Err(_)) => {
                        if !must_fail {
                            r.violations.push(fsite(Violation::new("C14", "spurious-write-failure", format!("{:?} failed under the legal delivery {:?}", op, f))));
                            break;
                        }
                        if !out.starts_with(&fw.accepted) {
                            r.violations.push(fsite(Violation::new("C14", "not-a-prefix", format!("{:?} under {:?} emitted {:?}, not a prefix of {:?}", op, f, show(&fw.accepted), shown))));
                            break;
                        }
                    }
                }
            }
            if !r.violations.is_empty() {
                break;
            }
        }
        r.count("write_operations", wops.len() as u64);
        r.digest.u64(inter.0);
        if store.next_id >= 2 {
            let mut d = Digest::default();
            d.str(&serde_json::to_string(&(&case.init, &case.ops, &case.ext)).unwrap());
            r.nontrivial = Some(d);
            r.interleaving = Some(inter);
        }
        if store.next_id as usize > store.live.len() {
            r.count("frameworks_with_removed_arguments", 1);
        }
        r
    }
    fn shrink(&self, case: &Value) -> Vec<Value> {
        let case: C14Case = serde_json::from_value(case.clone()).unwrap();
        let mut out = vec![];
        if case.label_scheme != 0 {
            out.push(C14Case { label_scheme: 0, ..case.clone() });
        }
        if case.plan.is_none() {
            let r = self.exec(&serde_json::to_value(&case).unwrap());
            for v in &r.violations {
                if let Some(inj) = v.site.get("inject") {
                    if let Ok(p) = serde_json::from_str::<(WOp, WFault)>(inj) {
                        out.push(C14Case { plan: Some(vec![p]), ..case.clone() });
                    }
                }
            }
            if case.wops.len() > 1 {
                for w in &case.wops {
                    out.push(C14Case { wops: vec![*w], ..case.clone() });
                }
            }
        }
        for ops in chunk_removals(&case.ops) {
            out.push(C14Case { ops, ..case.clone() });
        }
        for ext in chunk_removals(&case.ext) {
            out.push(C14Case { ext, ..case.clone() });
        }
        for init in chunk_removals(&case.init) {
            out.push(C14Case { init, ..case.clone() });
        }
        if case.ops.len() <= 64 {
            for i in 0..case.ops.len() {
                let mut ops = case.ops.clone();
                ops.remove(i);
                out.push(C14Case { ops, ..case.clone() });
            }
        }
        if case.init.len() <= 64 {
            for i in 0..case.init.len() {
                let mut init = case.init.clone();
                init.remove(i);
                out.push(C14Case { init, ..case.clone() });
            }
        }
        if case.ext.len() <= 64 {
            for i in 0..case.ext.len() {
                let mut ext = case.ext.clone();
                ext.remove(i);
                out.push(C14Case { ext, ..case.clone() });
            }
        }
        out.into_iter().map(|c| serde_json::to_value(c).unwrap()).collect()
    }
    fn rule(&self) -> String {
        "case = a framework produced by an update history (so removed arguments/attacks exist) over String labels that are valid Aspartix identifiers (`a<k>`, or in a third of the runs NESTED identifiers: prefixes and suffixes of one another, differing in case only; and the same history over usize labels for the ICCMA'23 writer, in those runs the widest usize values: 2^64-1, 10^19, 2^63 ...), an extension (incl. empty, any order), a status. Fault-free: write_framework -> bytes must be a well-formed Aspartix file by the reference parser and read back (through a chunked, EINTR-injecting stream) to the same labels in the same order and the same attack set; extension lines must follow the answer grammars (`w( l)*\\n`, `[l(,l)*]\\n`) and carry exactly the written labels; statuses are exactly YES\\n / NO\\n. FAULT ENUMERATION per write operation: hard write error at EVERY byte offset, zero-length write at every third offset, failing flush, seeded short writes with EINTR: Err (never Ok) when the sink failed, no panic, emitted bytes are a prefix of the fault-free output; short writes/EINTR are transparent. Non-trivial = history created >= 2 arguments; distinct = distinct (history, extension)".into()
    }
    fn assumptions(&self) -> Vec<String> {
        vec!["RefApx and the two answer grammars are written independently of the writers".into(), "labels are valid Aspartix identifiers (a<k>), as the property restricts".into()]
    }
    fn real_vs_stub(&self) -> Value {
        json!({"real": ["io::AspartixWriter", "io::Iccma23Writer", "io::specs write helpers", "io::AspartixReader for the read-back"], "stub": ["the sink: FaultyWrite; the read-back stream: FaultyRead"]})
    }
}
