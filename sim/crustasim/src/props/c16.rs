//! C16 — the exchange with an external SAT solver is well-formed and cannot hang.
//! Part 1 (this batch): every DIMACS instance handed to the external program by the argumentation
//! workloads is well-formed (strict validator inside SimChild). Parts 2 and 3 (schedules of the
//! feeder thread / child / reader under shuttle, and the real OS) are run by the `proc` binary and
//! reported through `extra`.

use crate::cases::{string_label, usize_label};
use crate::dpll::Policy;
use crate::framework::{Property, RunResult, Tier, Violation};
use crate::prng::{Digest, Rng};
use crate::props::dynamic::{self, gen_history, DynCase, DYN_KINDS, FACTORS};
use crate::props::statq::{gen_static, normalise, Mode};
use crate::simchild::ReplyPlan;
use crate::simsat::OracleCfg;
use crate::statics::{exec_static, Backend, ExecOpts, StaticCase};
use serde::{Deserialize, Serialize};
use serde_json::{json, Value};

#[derive(Clone, Debug, Serialize, Deserialize)]
pub enum C16Case {
    Static(StaticCase),
    Dynamic(DynCase),
    /// a raw history of SatSolver operations (empty clauses, tautologies, reserve, assumptions on
    /// unseen variables): shapes the argumentation solvers do not produce but the API admits
    Raw(crate::props::c15::C15Case),
}

pub struct C16;

fn classify(err: &str) -> &'static str {
    if err.contains("variables, literal on variable") {
        "header-variable-count"
    } else if err.contains("header announces") {
        "header-clause-count"
    } else {
        "malformed-text"
    }
}

impl Property for C16 {
    fn id(&self) -> &'static str {
        "C16"
    }
    fn runs(&self, tier: Tier) -> u64 {
        match tier {
            Tier::Quick => 400_000,
            Tier::Thorough => 10_000_000,
        }
    }
    fn gen(&self, run_seed: u64, _tier: Tier) -> Value {
        let mut rng = Rng::sub(run_seed, "workload");
        let mut prng = Rng::sub(run_seed, "delivery");
        let backend = Backend::Ext { plan: ReplyPlan::draw(&mut prng), vary_plan: prng.bool() };
        let fix = |mut o: OracleCfg| {
            if o.policy == Policy::Cadical {
                o.policy = Policy::Biased;
            }
            o
        };
        if rng.chance(1, 10) {
            let mut c = crate::props::c15::gen_case(run_seed);
            c.process = false;
            if let Backend::Ext { plan, vary_plan } = backend {
                c.plan = plan;
                c.vary_plan = vary_plan;
            }
            serde_json::to_value(C16Case::Raw(c)).unwrap()
        } else if rng.chance(7, 10) {
            let mode = *rng.pick(&[Mode::C01, Mode::C02, Mode::C03, Mode::C04, Mode::C07]);
            let mut c = gen_static(&mut rng, mode);
            c.backend = backend;
            c.oracle = fix(c.oracle);
            serde_json::to_value(C16Case::Static(c)).unwrap()
        } else {
            let solver = *rng.pick(&DYN_KINDS);
            let mut orng = Rng::sub(run_seed, "oracle");
            let steps = gen_history(&mut rng, solver, 0);
            serde_json::to_value(C16Case::Dynamic(DynCase {
                solver,
                factor: rng.below(FACTORS.len()),
                string_labels: rng.bool(),
                oracle: fix(OracleCfg::draw(&mut orng)),
                backend,
                steps,
            }))
            .unwrap()
        }
    }
    fn exec(&self, case: &Value) -> RunResult {
        let case: C16Case = serde_json::from_value(case.clone()).expect("C16 case");
        let mut r = RunResult::default();
        let (hub, chub, what) = match &case {
            C16Case::Static(c) => {
                let c = normalise(c);
                let out = exec_static(&c, ExecOpts::default());
                (out.hub, out.chub, format!("static {}-solver, enc {:?}, queries {:?}", c.sem.name(), c.enc, c.queries.iter().map(|q| q.kind).collect::<Vec<_>>()))
            }
            C16Case::Dynamic(c) => {
                let mut scratch = RunResult::default();
                let (h, ch) = if c.string_labels {
                    dynamic::exec_t("C16", c, &string_label, &mut scratch)
                } else {
                    dynamic::exec_t("C16", c, &usize_label, &mut scratch)
                };
                (h, ch, format!("dynamic solver {:?}", c.solver))
            }
            C16Case::Raw(c) => {
                use crate::props::c15::SatOp;
                use crustabri::sat::Literal;
                let backend = Backend::Ext { plan: c.plan, vary_plan: c.vary_plan };
                let (hub, chub) = crate::statics::make_hubs(c.oracle, backend, &None);
                let mut s = crate::statics::factory_for(backend, &hub, &chub)();
                let mut raw_mismatch: Option<String> = None;
                let lits = |v: &[i32]| v.iter().map(|l| Literal::from(*l as isize)).collect::<Vec<Literal>>();
                for op in &c.ops {
                    match op {
                        SatOp::Add(cl) => s.add_clause(lits(cl)),
                        SatOp::Reserve(n) => s.reserve(*n),
                        SatOp::Solve(a) => {
                            // the instance text is validated by the child; the reply must be reported as the
                            // child printed it (truth of the verdict itself is C15's business)
                            let res = std::panic::catch_unwind(std::panic::AssertUnwindSafe(|| s.solve_under_assumptions(&lits(a))));
                            let printed = chub.as_ref().and_then(|c| c.borrow().last_verdict.clone());
                            if raw_mismatch.is_none() {
                                use crate::simchild::ChildVerdict;
                                use crustabri::sat::SolvingResult;
                                raw_mismatch = match (&res, &printed) {
                                    (Ok(SolvingResult::Unknown), Some(ChildVerdict::Sat(_))) | (Ok(SolvingResult::Unknown), Some(ChildVerdict::Unsat)) => Some("the child printed a complete verdict but the call returned Unknown".to_string()),
                                    (Ok(SolvingResult::Unsatisfiable), Some(ChildVerdict::Sat(_))) => Some("the child printed a model but the call returned UNSAT".to_string()),
                                    (Ok(SolvingResult::Satisfiable(_)), Some(ChildVerdict::Unsat)) => Some("the child printed UNSATISFIABLE but the call returned a model".to_string()),
                                    (Ok(SolvingResult::Satisfiable(m)), Some(ChildVerdict::Sat(vals))) => {
                                        // a value the call reports must be the value the child printed
                                        (1..=vals.len()).find(|v| matches!(m.value_of(*v), Some(b) if b != vals[*v - 1])).map(|v| format!("variable {} reported with the opposite value of the one the child printed", v))
                                    }
                                    _ => None,
                                };
                            }
                        }
                    }
                }
                drop(s);
                if let Some(m) = raw_mismatch {
                    r.violations.push(Violation::new("C16", "reply-not-reported-faithfully", format!("raw SatSolver history on ExternalSatSolver: {}", m)).at("workload", "raw"));
                }
                (hub, chub, "a raw SatSolver history on ExternalSatSolver".to_string())
            }
        };
        let workload = match &case {
            C16Case::Static(_) => "static",
            C16Case::Dynamic(_) => "dynamic",
            C16Case::Raw(_) => "raw",
        };
        let h = hub.borrow();
        r.harness_error = h.harness_error.clone();
        r.digest = h.digest;
        if let Some(c) = &chub {
            let c = c.borrow();
            r.count("dimacs_instances_validated", c.instances_checked);
            r.count("dimacs_bytes_sent", c.bytes_in);
            r.count("reply_bytes", c.bytes_out);
            if let Some((call, e)) = c.dimacs_errors.first() {
                r.violations.push(
                    Violation::new("C16", "dimacs-ill-formed", format!("instance sent at SAT call {} by {} is not well-formed DIMACS: {}", call, what, e))
                        .at("defect", classify(e))
                        .at("workload", workload),
                );
            }
            if c.instances_checked >= 1 {
                let mut d = Digest::default();
                d.str(&serde_json::to_string(&case).unwrap());
                r.nontrivial = Some(d);
            }
        }
        r.count(&format!("workload_{}", workload), 1);
        r.interleaving = Some(h.result_seq);
        r
    }
    fn shrink(&self, case: &Value) -> Vec<Value> {
        let case: C16Case = serde_json::from_value(case.clone()).unwrap();
        match case {
            C16Case::Static(c) => crate::props::statq::shrink_static(&c)
                .into_iter()
                .filter(|x| matches!(x.backend, Backend::Ext { .. }) && x.oracle.policy != Policy::Cadical)
                .map(|x| serde_json::to_value(C16Case::Static(x)).unwrap())
                .collect(),
            C16Case::Dynamic(c) => {
                let mut out = vec![];
                for i in 0..c.steps.len() {
                    let mut s = c.steps.clone();
                    s.remove(i);
                    out.push(serde_json::to_value(C16Case::Dynamic(DynCase { steps: s, ..c.clone() })).unwrap());
                }
                out
            }
            C16Case::Raw(c) => {
                let mut out = vec![];
                for i in 0..c.ops.len() {
                    let mut ops = c.ops.clone();
                    ops.remove(i);
                    out.push(serde_json::to_value(C16Case::Raw(crate::props::c15::C15Case { ops, ..c.clone() })).unwrap());
                }
                out
            }
        }
    }
    fn extra(&self, tier: Tier, seed: u64) -> Option<crate::framework::Extra> {
        Some(parts_2_and_3(tier, seed))
    }
    fn rule(&self) -> String {
        "part 1: case = a C01-C04/C07 static workload or a C08 dynamic history run over the real BufferedSatSolver (DIMACS writer) in front of SimChild, whose strict validator checks every instance received on its stdin: `p cnf V C`, exactly C zero-terminated clauses, every |literal| <= V (incl. the unit clauses that carry the assumptions, e.g. selectors used only in assumptions), no other text. Non-trivial = >= 1 instance validated; distinct = distinct case. Parts 2/3: see coverage.extra".into()
    }
    fn assumptions(&self) -> Vec<String> {
        vec!["well-formedness is judged by a strict DIMACS CNF reader (what a conforming solver may insist on)".into()]
    }
    fn real_vs_stub(&self) -> Value {
        json!({"real": ["sat::BufferedSatSolver", "all solvers/encoders producing the clauses and assumptions"], "stub": ["SimChild as the external program (in-process)"], "parts_2_3": "exec_solver on the shuttle process/pipe seam and on the real OS: see coverage.extra"})
    }
}

// ---------------------------------------------------------------------------------------------
// Parts 2 and 3

use crate::cli::{self, StdoutMode};
use crate::framework::Extra;
use std::time::Duration;

fn parts_2_and_3(tier: Tier, seed: u64) -> Extra {
    let mut x = Extra::default();
    let mut value = serde_json::Map::new();
    // ---- part 2: schedule exploration in the `proc` engine (separate binary: crustabri compiled with
    // exec_solver routed through the simulated process seam)
    let proc_bin = std::env::var("VERIF_PROC_BIN").unwrap_or_else(|_| format!("{}/sim/target-proc/release/crustasim", crate::framework::verif_dir()));
    if !std::path::Path::new(&proc_bin).exists() {
        x.harness = Some(format!("part 2: the proc engine binary {} does not exist (seam build failed?)", proc_bin));
    } else {
        let ev = cli::scratch_dir("c16p2").join("part2.json");
        // the soft address-space limit of this (supervised) process must not be inherited by the
        // shuttle engine, whose detected deadlocks leak task stacks (virtual memory only)
        let out = std::process::Command::new("sh")
            .args(["-c", "ulimit -S -v unlimited 2>/dev/null; exec \"$0\" \"$@\"", &proc_bin])
            .args(["run", "C16", "--tier", tier.name(), "--seed", &seed.to_string()])
            .env("VERIF_EVIDENCE_FILE", &ev)
            .env_remove("VERIF_CHILD")
            .env_remove("VERIF_HEARTBEAT")
            .stderr(std::process::Stdio::null())
            .output();
        match out {
            Err(e) => x.harness = Some(format!("part 2: cannot run {}: {}", proc_bin, e)),
            Ok(o) => {
                let text = String::from_utf8_lossy(&o.stdout).to_string();
                let mut last_violation: Option<(String, String)> = None;
                for l in text.lines() {
                    if let Some(rest) = l.strip_prefix("violation: ") {
                        let (k, m) = rest.split_once(" :: ").unwrap_or((rest, ""));
                        last_violation = Some((k.to_string(), m.to_string()));
                    } else if let Some(rest) = l.strip_prefix("VIOLATION property=C16 replay=") {
                        let (k, m) = last_violation.take().unwrap_or_default();
                        x.passthrough.push((k, m, rest.trim().to_string()));
                    } else if l.starts_with("KNOWN-FINDING:") {
                        x.known_lines.push(l.to_string());
                    } else if l.starts_with("HARNESS-ERROR:") {
                        x.harness = Some(format!("part 2: {}", l));
                    }
                }
                match o.status.code() {
                    Some(0) | Some(1) => {}
                    c => {
                        if x.harness.is_none() {
                            x.harness = Some(format!("part 2: proc engine exited with {:?}", c));
                        }
                    }
                }
                if let Ok(t) = std::fs::read_to_string(&ev) {
                    if let Ok(v) = serde_json::from_str::<Value>(&t) {
                        let c = &v["coverage"];
                        x.evaluations += c["evaluations"].as_u64().unwrap_or(0);
                        value.insert(
                            "part2_schedules".into(),
                            json!({
                                "engine": "crustasim (proc build): real exec_solver on verif_seams under shuttle",
                                "schedules_run": c["evaluations"],
                                "distinct_pipe_operation_traces": c["distinct_interleavings"],
                                "counters": c["counters"],
                                "rule": c["rule"],
                                "wall_s": v["wall_s"],
                                "runs_per_hour": c["runs_per_hour"],
                                "sample": c["samples"][0],
                            }),
                        );
                    }
                }
                let _ = std::fs::remove_file(&ev);
            }
        }
    }
    // ---- part 3: the real OS agrees (guard off): ExternalSatSolver inside the real binary + fakesat on real pipes
    let dir = cli::scratch_dir("c16p3");
    let inst = dir.join("i.af");
    std::fs::write(&inst, b"p af 4\n1 2\n2 1\n2 3\n3 4\n4 3\n").unwrap();
    let sizes: Vec<usize> = match tier {
        // around the pipe capacity, and replies of several MiB (powers of two and just above)
        Tier::Quick => vec![0, 1024, 61_440, 65_535, 65_536, 65_537, 71_680, 1_048_576, 4_194_305, 6_291_456, 16_777_217],
        Tier::Thorough => {
            let mut v = vec![];
            let mut rng = Rng::new(seed ^ 0xC16);
            for _ in 0..50 {
                v.extend([0usize, 1024, 61_440, 65_535, 65_536, 65_537, 71_680, 1_048_576]);
                v.push(rng.range(60_000, 140_000));
            }
            for mib in [2usize, 4, 8, 16, 32, 64] {
                v.extend([mib << 20, (mib << 20) + 1, (mib << 20) + 70_000]);
            }
            v
        }
    };
    let mut rng = Rng::new(seed ^ 0x3C16);
    let mut real_runs = 0u64;
    let mut slowest = 0u128;
    for (k, sz) in sizes.iter().enumerate() {
        let mut args: Vec<String> = ["solve", "-f", inst.to_str().unwrap(), "-p", "DC-ST", "-a", "1", "--logging-level", "off", "--with-certificate", "--external-sat-solver", cli::fakesat_path().to_str().unwrap()]
            .iter()
            .map(|s| s.to_string())
            .collect();
        let mut opts = vec![format!("comment-bytes={}", sz), format!("seed={}", k)];
        if rng.chance(1, 3) {
            opts.push("comments=after".into());
        }
        if rng.chance(1, 3) {
            opts.push("banner-first".into());
        }
        if rng.chance(1, 3) {
            opts.push(format!("chunk={}", *rng.pick(&[1024usize, 4096, 65536])));
        }
        for o in &opts {
            args.push("--external-sat-solver-opt".into());
            args.push(o.clone());
        }
        let o = cli::run("crustabri", &args, StdoutMode::Pipe, Duration::from_secs(60));
        real_runs += 1;
        slowest = slowest.max(o.wall_ms);
        let lines = cli::answer_lines(&o.stdout);
        let case = json!({"real_os": {"args": args, "reply_comment_bytes": sz}});
        if o.timed_out {
            x.violations.push((case, Violation::new("C16", "hang", format!("real OS: `crustabri {}` did not return within 60 s with a solver reply of ~{} bytes", args.join(" "), sz)).at("part", "real-os")));
        } else if o.code != Some(0) || lines.first().map(|s| s.as_str()) != Some("YES\n") || lines.len() != 2 {
            x.violations.push((case, Violation::new("C16", "real-os-wrong-outcome", format!("real OS: `crustabri {}` -> exit {:?}, stdout {:?}", args.join(" "), o.code, String::from_utf8_lossy(&o.stdout))).at("part", "real-os")));
        }
    }
    let _ = std::fs::remove_dir_all(&dir);
    x.evaluations += real_runs;
    value.insert(
        "part3_real_os".into(),
        json!({"processes": real_runs, "reply_sizes": if tier == Tier::Quick { json!(sizes) } else { json!("8 fixed sizes x 50 + 50 seeded sizes in 60000..140000 + 18 sizes of 2..64 MiB") }, "slowest_ms": slowest as u64, "watchdog_s": 60,
               "what": "real crustabri binary (guard off) with --external-sat-solver fakesat on real OS pipes, reply volumes around and above the 64 KiB pipe capacity, comments before/after the verdict, banner before reading stdin, chunked writes; must return the correct answer"}),
    );
    x.value = Value::Object(value);
    x
}
