//! C16 — the exchange with an external SAT solver is well-formed and cannot hang.
//! Part 1 (this batch): every DIMACS instance handed to the external program by the argumentation
//! workloads is well-formed (strict validator inside SimChild). Parts 2 and 3 (schedules of the
//! feeder thread / child / reader under shuttle, and the real OS) are run by the `proc` binary and
//! reported through `extra`.

use crate::cases::{string_label, usize_label};
use crate::dpll::Policy;
use crate::framework::{Property, RunResult, Tier, Violation};
use crate::prng::{Digest, Rng};
use crate::props::dynamic::{self, gen_history, DynCase, DYN_KINDS, FACTORS};
use crate::props::statq::{gen_static, normalise, Mode};
use crate::simchild::ReplyPlan;
use crate::simsat::OracleCfg;
use crate::statics::{exec_static, Backend, ExecOpts, StaticCase};
use serde::{Deserialize, Serialize};
use serde_json::{json, Value};

#[derive(Clone, Debug, Serialize, Deserialize)]
pub enum C16Case {
    Static(StaticCase),
    Dynamic(DynCase),
}

pub struct C16;

fn classify(err: &str) -> &'static str {
    if err.contains("variables, literal on variable") {
        "header-variable-count"
    } else if err.contains("header announces") {
        "header-clause-count"
    } else {
        "malformed-text"
    }
}

impl Property for C16 {
    fn id(&self) -> &'static str {
        "C16"
    }
    fn runs(&self, tier: Tier) -> u64 {
        match tier {
            Tier::Quick => 60_000,
            Tier::Thorough => 2_000_000,
        }
    }
    fn gen(&self, run_seed: u64, _tier: Tier) -> Value {
        let mut rng = Rng::sub(run_seed, "workload");
        let mut prng = Rng::sub(run_seed, "delivery");
        let backend = Backend::Ext { plan: ReplyPlan::draw(&mut prng), vary_plan: prng.bool() };
        let fix = |mut o: OracleCfg| {
            if o.policy == Policy::Cadical {
                o.policy = Policy::Biased;
            }
            o
        };
        if rng.chance(7, 10) {
            let mode = *rng.pick(&[Mode::C01, Mode::C02, Mode::C03, Mode::C04, Mode::C07]);
            let mut c = gen_static(&mut rng, mode);
            c.backend = backend;
            c.oracle = fix(c.oracle);
            serde_json::to_value(C16Case::Static(c)).unwrap()
        } else {
            let solver = *rng.pick(&DYN_KINDS);
            let mut orng = Rng::sub(run_seed, "oracle");
            let steps = gen_history(&mut rng, solver, 0);
            serde_json::to_value(C16Case::Dynamic(DynCase {
                solver,
                factor: rng.below(FACTORS.len()),
                string_labels: rng.bool(),
                oracle: fix(OracleCfg::draw(&mut orng)),
                backend,
                steps,
            }))
            .unwrap()
        }
    }
    fn exec(&self, case: &Value) -> RunResult {
        let case: C16Case = serde_json::from_value(case.clone()).expect("C16 case");
        let mut r = RunResult::default();
        let (hub, chub, what) = match &case {
            C16Case::Static(c) => {
                let c = normalise(c);
                let out = exec_static(&c, ExecOpts::default());
                (out.hub, out.chub, format!("static {}-solver, enc {:?}, queries {:?}", c.sem.name(), c.enc, c.queries.iter().map(|q| q.kind).collect::<Vec<_>>()))
            }
            C16Case::Dynamic(c) => {
                let mut scratch = RunResult::default();
                let (h, ch) = if c.string_labels {
                    dynamic::exec_t("C16", c, &string_label, &mut scratch)
                } else {
                    dynamic::exec_t("C16", c, &usize_label, &mut scratch)
                };
                (h, ch, format!("dynamic solver {:?}", c.solver))
            }
        };
        let h = hub.borrow();
        r.harness_error = h.harness_error.clone();
        r.digest = h.digest;
        if let Some(c) = &chub {
            let c = c.borrow();
            r.count("dimacs_instances_validated", c.instances_checked);
            r.count("dimacs_bytes_sent", c.bytes_in);
            r.count("reply_bytes", c.bytes_out);
            if let Some((call, e)) = c.dimacs_errors.first() {
                r.violations.push(
                    Violation::new("C16", "dimacs-ill-formed", format!("instance sent at SAT call {} by {} is not well-formed DIMACS: {}", call, what, e))
                        .at("defect", classify(e))
                        .at("workload", if matches!(case, C16Case::Static(_)) { "static" } else { "dynamic" }),
                );
            }
            if c.instances_checked >= 1 {
                let mut d = Digest::default();
                d.str(&serde_json::to_string(&case).unwrap());
                r.nontrivial = Some(d);
            }
        }
        r.count(if matches!(case, C16Case::Static(_)) { "workload_static" } else { "workload_dynamic" }, 1);
        r.interleaving = Some(h.result_seq);
        r
    }
    fn shrink(&self, case: &Value) -> Vec<Value> {
        let case: C16Case = serde_json::from_value(case.clone()).unwrap();
        match case {
            C16Case::Static(c) => crate::props::statq::shrink_static(&c)
                .into_iter()
                .filter(|x| matches!(x.backend, Backend::Ext { .. }) && x.oracle.policy != Policy::Cadical)
                .map(|x| serde_json::to_value(C16Case::Static(x)).unwrap())
                .collect(),
            C16Case::Dynamic(c) => {
                let mut out = vec![];
                for i in 0..c.steps.len() {
                    let mut s = c.steps.clone();
                    s.remove(i);
                    out.push(serde_json::to_value(C16Case::Dynamic(DynCase { steps: s, ..c.clone() })).unwrap());
                }
                out
            }
        }
    }
    fn rule(&self) -> String {
        "part 1: case = a C01-C04/C07 static workload or a C08 dynamic history run over the real BufferedSatSolver (DIMACS writer) in front of SimChild, whose strict validator checks every instance received on its stdin: `p cnf V C`, exactly C zero-terminated clauses, every |literal| <= V (incl. the unit clauses that carry the assumptions, e.g. selectors used only in assumptions), no other text. Non-trivial = >= 1 instance validated; distinct = distinct case. Parts 2/3: see coverage.extra".into()
    }
    fn assumptions(&self) -> Vec<String> {
        vec!["well-formedness is judged by a strict DIMACS CNF reader (what a conforming solver may insist on)".into()]
    }
    fn real_vs_stub(&self) -> Value {
        json!({"real": ["sat::BufferedSatSolver", "all solvers/encoders producing the clauses and assumptions"], "stub": ["SimChild as the external program (in-process)"], "parts_2_3": "exec_solver on the shuttle process/pipe seam and on the real OS: see coverage.extra"})
    }
}
