//! C06 — answers do not depend on encoding, SAT backend, certificate flag or query order.

use crate::cases::{gen_framework, shrink_fw, GenParams};
use crate::dpll::Policy;
use crate::framework::{Property, RunResult, Tier, Violation};
use crate::prng::{Digest, Rng};
use crate::props::statq::{normalise, tame_encoder};
use crate::refsem::ALL_SEMS;
use crate::refstore::{RefStore, L};
use crate::simchild::ReplyPlan;
use crate::simsat::OracleCfg;
use crate::statics::{check_answer, encoders_for_all_kinds, exec_static, yn, Answer, Backend, Enc, ExecOpts, QKind, StaticCase, Truth, Q};
use serde::{Deserialize, Serialize};
use serde_json::{json, Value};

#[derive(Clone, Copy, Debug, PartialEq, Eq, Serialize, Deserialize)]
pub enum Order {
    Same,
    Reversed,
    Shuffled(u64),
}

#[derive(Clone, Debug, Serialize, Deserialize)]
pub struct Alt {
    pub enc: Enc,
    pub oracle: OracleCfg,
    pub backend: Backend,
    pub flip_cert: bool,
    pub order: Order,
    pub fresh_objects: bool,
}

#[derive(Clone, Debug, Serialize, Deserialize)]
pub struct C06Case {
    pub base: StaticCase,
    pub alts: Vec<Alt>,
}

pub struct C06;

fn permutation(n: usize, o: Order) -> Vec<usize> {
    let mut p: Vec<usize> = (0..n).collect();
    match o {
        Order::Same => {}
        Order::Reversed => p.reverse(),
        Order::Shuffled(s) => Rng::new(s).shuffle(&mut p),
    }
    p
}

fn status_of(a: &Answer) -> Option<bool> {
    match a {
        Answer::Status(b, _) => Some(*b),
        Answer::Ext(e) => Some(e.is_some()),
        _ => None,
    }
}

impl Property for C06 {
    fn id(&self) -> &'static str {
        "C06"
    }
    fn runs(&self, tier: Tier) -> u64 {
        match tier {
            Tier::Quick => 150_000,
            Tier::Thorough => 2_400_000,
        }
    }
    fn gen(&self, run_seed: u64, _tier: Tier) -> Value {
        let mut rng = Rng::sub(run_seed, "workload");
        let fw = gen_framework(&mut rng, &GenParams { max_n: 8, allow_removals: true, single_component_pct: 20 });
        let mut store = RefStore::default();
        for u in &fw.ops {
            store.apply(u);
        }
        let live: Vec<L> = store.args_by_id().iter().map(|(_, l)| *l).collect();
        let sem = *rng.pick(&ALL_SEMS);
        let mut queries = vec![];
        let n_q = rng.range(6, 20);
        for _ in 0..n_q {
            let kind = if live.is_empty() { QKind::SE } else { *rng.pick(&[QKind::DC, QKind::DC, QKind::DS, QKind::DS, QKind::SE]) };
            let q = match kind {
                QKind::SE => Q { kind, args: vec![], cert: false },
                _ => {
                    let k = rng.weighted(&[8, 2]) + 1;
                    Q { kind, args: (0..k).map(|_| *rng.pick(&live)).collect(), cert: rng.bool() }
                }
            };
            queries.push(q);
            // repetitions
            if rng.chance(1, 5) {
                let q = queries[rng.below(queries.len())].clone();
                queries.push(q);
            }
        }
        let encs = encoders_for_all_kinds(sem);
        let mut orng = Rng::sub(run_seed, "oracle");
        let mut prng = Rng::sub(run_seed, "delivery");
        let draw_backend = |rng: &mut Rng, prng: &mut Rng| match rng.weighted(&[500, 300, 197, 3]) {
            0 => Backend::Sim,
            1 => Backend::Ext { plan: ReplyPlan::draw(prng), vary_plan: rng.bool() },
            2 => Backend::Cadical,
            // 0.3 %: the real external-process path (ExternalSatSolver + exec_solver + fakesat on OS pipes)
            _ => Backend::Process { seed: prng.next_u64() >> 40, comment_bytes: *prng.pick(&[0usize, 300, 70_000]) },
        };
        let fix = |b: Backend, mut o: OracleCfg| {
            if matches!(b, Backend::Ext { .. }) && o.policy == Policy::Cadical {
                o.policy = Policy::MaxTrue;
            }
            o
        };
        let b0 = draw_backend(&mut rng, &mut prng);
        let base = StaticCase {
            fw,
            sem,
            enc: tame_encoder(*rng.pick(&encs), &store),
            oracle: fix(b0, OracleCfg::draw(&mut orng)),
            backend: b0,
            queries,
            reuse_objects: true,
            fault: None,
        };
        let mut alts = vec![];
        for _ in 0..rng.range(2, 4) {
            let b = draw_backend(&mut rng, &mut prng);
            alts.push(Alt {
                enc: tame_encoder(*rng.pick(&encs), &store),
                oracle: fix(b, OracleCfg::draw(&mut orng)),
                backend: b,
                flip_cert: rng.bool(),
                order: match rng.below(3) {
                    0 => Order::Same,
                    1 => Order::Reversed,
                    _ => Order::Shuffled(rng.next_u64() >> 20),
                },
                fresh_objects: rng.chance(1, 4),
            });
        }
        serde_json::to_value(C06Case { base, alts }).unwrap()
    }
    fn exec(&self, case: &Value) -> RunResult {
        let case: C06Case = serde_json::from_value(case.clone()).expect("C06 case");
        let base = normalise(&case.base);
        let mut r = RunResult::default();
        if crate::props::statq::too_big_for_refsem(&base) {
            r.skipped = Some("more live arguments than the reference semantics enumerates (shrinker artefact)".into());
            return r;
        }
        let out0 = exec_static(&base, ExecOpts::default());
        let mut truth = Truth::of(&out0.store);
        r.digest = out0.hub.borrow().digest;
        let mut inter = out0.hub.borrow().result_seq;
        let mut total_calls = out0.hub.borrow().calls;
        if let Some(e) = &out0.hub.borrow().harness_error {
            r.harness_error = Some(e.clone());
        }
        let describe = |c: &StaticCase| format!("enc {:?} backend {} oracle {:?}/{}", c.enc, backend_name(c.backend), c.oracle.policy, c.oracle.seed);
        // the base configuration against RefSem
        for (q, a) in base.queries.iter().zip(out0.answers.iter()) {
            if let Some((check, msg)) = check_answer(&mut truth, base.sem, q, a) {
                r.violations.push(
                    Violation::new("C06", &check, format!("{} [{}]", msg, describe(&base)))
                        .at("sem", base.sem.name())
                        .at("kind", format!("{:?}", q.kind))
                        .at("backend", backend_name(base.backend)),
                );
                break;
            }
        }
        if let Some(m) = &out0.framework_modified {
            r.violations.push(Violation::new("C06", "framework-modified", m.clone()).at("sem", base.sem.name()));
        }
        r.count(&format!("config_backend_{}", backend_name(base.backend)), 1);
        for alt in &case.alts {
            let perm = permutation(base.queries.len(), alt.order);
            let queries: Vec<Q> = perm
                .iter()
                .map(|i| {
                    let mut q = base.queries[*i].clone();
                    if alt.flip_cert && q.kind != QKind::SE {
                        q.cert = !q.cert;
                    }
                    q
                })
                .collect();
            let c = StaticCase {
                enc: alt.enc,
                oracle: alt.oracle,
                backend: alt.backend,
                queries,
                reuse_objects: !alt.fresh_objects,
                ..base.clone()
            };
            let out = exec_static(&c, ExecOpts::default());
            let h = out.hub.borrow();
            if let Some(e) = &h.harness_error {
                r.harness_error = Some(e.clone());
            }
            r.digest.u64(h.digest.0);
            inter.u64(h.result_seq.0);
            total_calls += h.calls;
            r.count(&format!("config_backend_{}", backend_name(alt.backend)), 1);
            r.count(&format!("config_order_{}", match alt.order { Order::Same => "same", Order::Reversed => "reversed", Order::Shuffled(_) => "shuffled" }), 1);
            if alt.flip_cert {
                r.count("config_certificate_flag_flipped", 1);
            }
            if alt.enc != base.enc {
                r.count("config_other_encoder", 1);
            }
            if let Some(m) = &out.framework_modified {
                r.violations.push(Violation::new("C06", "framework-modified", m.clone()).at("sem", base.sem.name()));
            }
            for (k, i) in perm.iter().enumerate() {
                let a0 = &out0.answers[*i];
                let a1 = &out.answers[k];
                let (s0, s1) = (status_of(a0), status_of(a1));
                if s0 != s1 || s1.is_none() {
                    let q = &base.queries[*i];
                    let show = |a: &Answer| match status_of(a) {
                        Some(b) => yn(b).to_string(),
                        None => format!("{:?}", a),
                    };
                    r.violations.push(
                        Violation::new(
                            "C06",
                            "config-divergence",
                            format!(
                                "{:?}-{} {:?}: {} under [{}] but {} under [{}, order {:?}, cert {}]",
                                q.kind,
                                base.sem.name(),
                                q.args,
                                show(a0),
                                describe(&base),
                                show(a1),
                                describe(&c),
                                alt.order,
                                c.queries[k].cert
                            ),
                        )
                        .at("sem", base.sem.name())
                        .at("kind", format!("{:?}", q.kind))
                        .at("backends", format!("{}/{}", backend_name(base.backend), backend_name(alt.backend))),
                    );
                    break;
                }
            }
        }
        r.count("sat_calls", total_calls);
        r.count("queries", (base.queries.len() * (1 + case.alts.len())) as u64);
        let (af, _, _) = out0.store.to_ref();
        if af.n >= 2 && !af.attacks().is_empty() && !case.alts.is_empty() && total_calls >= 2 {
            let mut d = Digest::default();
            d.str(&serde_json::to_string(&case).unwrap());
            r.nontrivial = Some(d);
        }
        r.interleaving = Some(inter);
        r
    }
    fn shrink(&self, case: &Value) -> Vec<Value> {
        let case: C06Case = serde_json::from_value(case.clone()).unwrap();
        let mut out: Vec<C06Case> = vec![];
        if case.alts.len() > 1 {
            for i in 0..case.alts.len() {
                out.push(C06Case { base: case.base.clone(), alts: vec![case.alts[i].clone()] });
            }
        }
        let nq = case.base.queries.len();
        if nq > 1 {
            for i in 0..nq {
                let mut b = case.base.clone();
                b.queries.remove(i);
                // shuffled orders are length dependent: fall back to Reversed/Same
                let alts = case.alts.iter().map(|a| Alt { order: if let Order::Shuffled(_) = a.order { Order::Reversed } else { a.order }, ..a.clone() }).collect();
                out.push(C06Case { base: b, alts });
            }
        }
        for fw in shrink_fw(&case.base.fw) {
            out.push(C06Case { base: normalise(&StaticCase { fw, ..case.base.clone() }), alts: case.alts.clone() });
        }
        for (i, a) in case.alts.iter().enumerate() {
            let mut push = |na: Alt| {
                let mut alts = case.alts.clone();
                alts[i] = na;
                out.push(C06Case { base: case.base.clone(), alts });
            };
            if a.order != Order::Same {
                push(Alt { order: Order::Same, ..a.clone() });
            }
            if a.flip_cert {
                push(Alt { flip_cert: false, ..a.clone() });
            }
            if a.enc != case.base.enc {
                push(Alt { enc: case.base.enc, ..a.clone() });
            }
            if a.backend != Backend::Cadical {
                push(Alt { backend: Backend::Cadical, oracle: OracleCfg::cadical(), ..a.clone() });
            }
            if a.fresh_objects {
                push(Alt { fresh_objects: false, ..a.clone() });
            }
        }
        if case.base.backend != Backend::Cadical {
            out.push(C06Case { base: StaticCase { backend: Backend::Cadical, oracle: OracleCfg::cadical(), ..case.base.clone() }, alts: case.alts.clone() });
        }
        out.into_iter().map(|c| serde_json::to_value(c).unwrap()).collect()
    }
    fn rule(&self) -> String {
        "case = framework x semantics x a history of 6..24 queries (SE/DC/DS, lists of 1..2 arguments, random certificate flags, repetitions) applied to ONE solver object per query kind under a base configuration, and re-applied under 2..4 alternative configurations drawn from {aux_var, exp, hybrid / cf encoders} x {SimSat with another oracle seed/policy, real CadicalSolver, real BufferedSatSolver over SimChild with seeded legal reply variations} x {certificate flag flipped} x {same, reversed, shuffled order} x {same objects, fresh objects}. Oracle: statuses equal position by position across configurations (and equal to RefSem for the base), framework snapshot unchanged. Non-trivial = >= 2 arguments, >= 1 attack, >= 2 SAT calls; distinct = distinct case".into()
    }
    fn assumptions(&self) -> Vec<String> {
        vec![
            "the external backend is the real DIMACS writer/reply parser over the in-process SimChild here; the real process path is exercised by C16 (shuttle seam and real OS) and C05".into(),
            "RefSem for the base configuration; pure differential comparison for the alternatives".into(),
        ]
    }
    fn real_vs_stub(&self) -> Value {
        json!({"real": ["crustabri::solvers::*", "crustabri::encodings::* (HybridCompleteConstraintsEncoder reused across the whole history)", "sat::CadicalSolver", "sat::BufferedSatSolver"], "stub": ["SimSat", "SimChild"]})
    }
}

pub fn backend_name(b: Backend) -> &'static str {
    match b {
        Backend::Sim => "simsat",
        Backend::Ext { .. } => "external-dimacs",
        Backend::Cadical => "cadical",
        Backend::Process { .. } => "external-process",
    }
}
