//! C05 — the command-line tools print exactly the right answer, or none. Real binaries (guard off),
//! black-box, with injected environment faults (missing / directory / dangling / truncated instance
//! file, failing stdout) and malformed invocations.

use crate::cli::{self, answer_lines, StdoutMode};
use crate::framework::{Property, RunResult, Tier, Violation};
use crate::prng::{Digest, Rng};
use crate::refsem::{RefAf, Sem, SemCache, ALL_SEMS};
use crate::streams::{ref_apx, ref_iccma, RefParse};
use serde::{Deserialize, Serialize};
use serde_json::{json, Value};
use std::time::Duration;

#[derive(Clone, Copy, Debug, PartialEq, Eq, Hash, Serialize, Deserialize)]
pub enum FileFault {
    None,
    Missing,
    Directory,
    DanglingSymlink,
    TruncatedAt(usize),
}

#[derive(Clone, Debug, Serialize, Deserialize)]
pub struct ExtSpec {
    pub seed: u64,
    pub policy: String,
    pub comment_bytes: usize,
}

#[derive(Clone, Debug, Serialize, Deserialize)]
pub struct C05Case {
    pub wrapper: bool,
    pub apx: bool,
    pub text: Vec<u8>,
    pub file_fault: FileFault,
    pub problem: String,
    pub arg: Option<String>,
    pub encoding: Option<String>,
    pub cert: bool,
    pub logging: Option<String>,
    pub external: Option<ExtSpec>,
    pub stdout_mode: StdoutMode,
}

pub struct C05;

pub const PROBLEMS: [&str; 21] = [
    "SE-GR", "DC-GR", "DS-GR", "SE-CO", "DC-CO", "DS-CO", "SE-PR", "DC-PR", "DS-PR", "SE-ST", "DC-ST", "DS-ST", "SE-SST", "DC-SST", "DS-SST", "SE-STG", "DC-STG", "DS-STG", "SE-ID",
    "DC-ID", "DS-ID",
];

pub fn parse_problem(p: &str) -> Option<(String, Sem)> {
    let (q, s) = p.split_once('-')?;
    let q = q.to_ascii_lowercase();
    if !["se", "dc", "ds"].contains(&q.as_str()) {
        return None;
    }
    let sem = ALL_SEMS.iter().copied().find(|x| x.name().eq_ignore_ascii_case(s))?;
    Some((q, sem))
}

fn random_case(rng: &mut Rng, s: &str) -> String {
    match rng.below(4) {
        0 => s.to_string(),
        1 => s.to_ascii_lowercase(),
        _ => s.chars().map(|c| if rng.bool() { c.to_ascii_lowercase() } else { c.to_ascii_uppercase() }).collect(),
    }
}

pub fn render_instance(rng: &mut Rng, apx: bool, n: usize, atts: &[(usize, usize)], names: &[String]) -> Vec<u8> {
    let mut s = String::new();
    if apx {
        for nme in names.iter().take(n) {
            s.push_str(&format!("arg({}).\n", nme));
        }
        for (a, b) in atts {
            s.push_str(&format!("att({},{}).\n", names[*a], names[*b]));
        }
    } else {
        if rng.chance(1, 5) {
            s.push_str("# generated\n");
        }
        s.push_str(&format!("p af {}\n", n));
        for (a, b) in atts {
            s.push_str(&format!("{} {}\n", a + 1, b + 1));
        }
    }
    s.into_bytes()
}

pub fn gen_graph(rng: &mut Rng, max_n: usize) -> (usize, Vec<(usize, usize)>) {
    let n = rng.range(1, max_n);
    let mut atts = vec![];
    let dens = *rng.pick(&[1usize, 2, 3]);
    for a in 0..n {
        for b in 0..n {
            if rng.below(7) < dens && (a != b || rng.chance(1, 3)) {
                atts.push((a, b));
            }
        }
    }
    (n, atts)
}

pub fn defender_product(n: usize, atts: &[(usize, usize)]) -> u64 {
    let af = RefAf::new(n, atts);
    let mut worst = 1u64;
    for a in 0..n {
        let mut p = 1u64;
        for b in 0..n {
            if af.attackers[a] >> b & 1 == 1 {
                p = p.saturating_mul(af.attackers[b].count_ones() as u64);
            }
        }
        worst = worst.max(p);
    }
    worst
}

enum Expect {
    /// usage / input error: non-zero exit, no answer line
    Error(&'static str),
    /// valid invocation on a well-formed file
    Answer { labels: Vec<String>, atts: Vec<(usize, usize)>, query: String, sem: Sem, arg_pos: Option<usize> },
    Unspecified(&'static str),
}

fn expectation(case: &C05Case, bytes: &[u8]) -> Expect {
    match case.file_fault {
        FileFault::Missing | FileFault::Directory | FileFault::DanglingSymlink => return Expect::Error("unreadable instance file"),
        _ => {}
    }
    let apx_reader = case.apx && !case.wrapper;
    let parsed = if apx_reader { ref_apx(bytes) } else { ref_iccma(bytes) };
    // a bad problem string or a missing argument is an error whatever the file is, but the tools
    // read the file first: an Unspecified file may already have failed => unspecified overall
    let (labels, atts) = match parsed {
        RefParse::IllFormed(_) => return Expect::Error("ill-formed instance file"),
        RefParse::Unspecified(_) => return Expect::Unspecified("file content on which the grammar is silent"),
        RefParse::WellFormed(l, a) => (l, a),
    };
    let (query, sem) = match parse_problem(&case.problem) {
        Some(x) => x,
        None => return Expect::Error("unknown problem"),
    };
    let arg_pos = match &case.arg {
        None => None,
        Some(a) => {
            let pos = if apx_reader {
                labels.iter().position(|l| l == a)
            } else {
                match a.parse::<usize>() {
                    Ok(k) if a == &k.to_string() && k >= 1 && k <= labels.len() => Some(k - 1),
                    Ok(_) if a != &a.trim_start_matches('+').trim_start_matches('0').to_string() => return Expect::Unspecified("unusual number syntax for the argument"),
                    _ => None,
                }
            };
            match pos {
                Some(p) => Some(p),
                None => {
                    // the property lists "unknown query argument" among the input errors without
                    // exempting the SE problems (a VALID superfluous -a is tolerated by the tools and
                    // is neither missing nor unknown)
                    return Expect::Error("unknown query argument");
                }
            }
        }
    };
    if query != "se" && arg_pos.is_none() {
        return Expect::Error("missing query argument");
    }
    if labels.is_empty() && query != "se" {
        return Expect::Error("unknown query argument");
    }
    Expect::Answer { labels, atts, query, sem, arg_pos }
}

fn parse_set(line: &str, apx: bool) -> Option<Vec<String>> {
    let l = line.strip_suffix('\n')?;
    if apx {
        let inner = l.strip_prefix('[')?.strip_suffix(']')?;
        if inner.is_empty() {
            return Some(vec![]);
        }
        Some(inner.split(',').map(|s| s.to_string()).collect())
    } else {
        let rest = l.strip_prefix('w')?;
        if rest.is_empty() {
            return Some(vec![]);
        }
        Some(rest.strip_prefix(' ')?.split(' ').map(|s| s.to_string()).collect())
    }
}

fn is_answer_line(l: &str) -> bool {
    let t = l.trim_end();
    t == "YES" || t == "NO" || t == "w" || t.starts_with("w ") || (t.starts_with('[') && t.ends_with(']'))
}

pub fn materialise(case: &C05Case, dir: &std::path::Path) -> (String, Vec<u8>) {
    let path = dir.join("instance.txt");
    let _ = std::fs::remove_file(&path);
    let _ = std::fs::remove_dir(&path);
    let mut bytes = case.text.clone();
    match case.file_fault {
        FileFault::None => std::fs::write(&path, &bytes).unwrap(),
        FileFault::TruncatedAt(k) => {
            bytes.truncate(k.min(bytes.len()));
            std::fs::write(&path, &bytes).unwrap()
        }
        FileFault::Missing => {}
        FileFault::Directory => std::fs::create_dir_all(&path).unwrap(),
        FileFault::DanglingSymlink => {
            let _ = std::os::unix::fs::symlink(dir.join("does-not-exist"), &path);
        }
    }
    (path.to_string_lossy().to_string(), bytes)
}

pub fn command_line(case: &C05Case, file: &str) -> (&'static str, Vec<String>) {
    let mut args: Vec<String> = vec![];
    if case.wrapper {
        args.extend(["-f".into(), file.to_string(), "-p".into(), case.problem.clone()]);
        if let Some(a) = &case.arg {
            args.extend(["-a".into(), a.clone()]);
        }
        ("crustabri_iccma23", args)
    } else {
        args.extend(["solve".into(), "-f".into(), file.to_string(), "-p".into(), case.problem.clone()]);
        if let Some(a) = &case.arg {
            args.extend(["-a".into(), a.clone()]);
        }
        if case.apx {
            args.extend(["-r".into(), "apx".into()]);
        }
        if let Some(e) = &case.encoding {
            args.extend(["--encoding".into(), e.clone()]);
        }
        if case.cert {
            args.push("--with-certificate".into());
        }
        if let Some(l) = &case.logging {
            args.extend(["--logging-level".into(), l.clone()]);
        }
        if let Some(x) = &case.external {
            args.extend(["--external-sat-solver".into(), cli::fakesat_path().to_string_lossy().to_string()]);
            for o in [format!("seed={}", x.seed), format!("policy={}", x.policy), format!("comment-bytes={}", x.comment_bytes)] {
                args.extend(["--external-sat-solver-opt".into(), o]);
            }
        }
        ("crustabri", args)
    }
}

impl Property for C05 {
    fn id(&self) -> &'static str {
        "C05"
    }
    fn runs(&self, tier: Tier) -> u64 {
        match tier {
            Tier::Quick => 8_000,
            Tier::Thorough => 150_000,
        }
    }
    fn wall_cap(&self, tier: Tier) -> u64 {
        match tier {
            Tier::Quick => 300,
            Tier::Thorough => 2700,
        }
    }
    fn gen(&self, run_seed: u64, _tier: Tier) -> Value {
        let mut rng = Rng::sub(run_seed, "workload");
        let wrapper = rng.chance(1, 3);
        let apx = if wrapper { rng.chance(1, 10) } else { rng.chance(2, 5) };
        // half of the instances from the shape families (motifs on which the semantics differ)
        let (n, atts) = if rng.bool() { crate::cases::shaped_graph(&mut rng, 6) } else { gen_graph(&mut rng, 6) };
        let names: Vec<String> = (0..n).map(|i| ["a", "b", "c", "d", "e", "f", "g"][i].to_string() + if rng.chance(1, 4) { "_1" } else { "" }).collect();
        let mut text = render_instance(&mut rng, apx, n, &atts, &names);
        let mut frng = Rng::sub(run_seed, "faults");
        // text-level faults
        match frng.below(10) {
            0 => {
                // ill-formed of a listed class
                text = if apx { b"arg(a).\natt(a,zz).\n".to_vec() } else { format!("p af {}\n{} 1\n", n, n + 1).into_bytes() };
            }
            1 => {
                if !text.is_empty() {
                    let at = frng.below(text.len());
                    text[at] ^= 1 << frng.below(7);
                }
            }
            _ => {}
        }
        let file_fault = match frng.below(14) {
            0 => FileFault::Missing,
            1 => FileFault::Directory,
            2 => FileFault::DanglingSymlink,
            3 => FileFault::TruncatedAt(frng.below(text.len() + 1)),
            _ => FileFault::None,
        };
        let problem = match rng.below(12) {
            0 => rng.pick(&["SEGR", "SE-XX", "XX-GR", "SE_GR", "SE-", "-GR", "", "DC", "se-prr", "EE-PR", "DS-COO", "SE-GR-X"]).to_string(),
            _ => {
                let p = PROBLEMS[rng.below(PROBLEMS.len())];
                random_case(&mut rng, p)
            }
        };
        let is_se = problem.to_ascii_lowercase().starts_with("se");
        // half of the valid query arguments are members of the grounded extension when it is not empty
        // (shortcuts of the command-line glue for "settled" arguments are otherwise rarely exercised)
        let gr = RefAf::new(n, &atts).grounded();
        let pick = |rng: &mut Rng| -> usize {
            let members: Vec<usize> = (0..n).filter(|i| gr >> i & 1 == 1).collect();
            if !members.is_empty() && rng.bool() {
                *rng.pick(&members)
            } else {
                rng.below(n)
            }
        };
        let label = |rng: &mut Rng| {
            let k = pick(rng);
            if apx && !wrapper {
                names[k].clone()
            } else {
                (k + 1).to_string()
            }
        };
        let arg = match rng.below(12) {
            0 => None,
            1 => Some(rng.pick(&["0", "99", "zz", "-1", "a b"]).to_string()),
            _ => {
                if is_se && rng.chance(3, 4) {
                    None
                } else {
                    Some(label(&mut rng))
                }
            }
        };
        let mut encoding = if rng.chance(2, 3) { Some(rng.pick(&["aux_var", "exp", "hybrid"]).to_string()) } else { None };
        if encoding.as_deref() == Some("exp") && defender_product(n, &atts) > 2000 {
            encoding = Some("hybrid".into());
        }
        if encoding.is_none() && defender_product(n, &atts) > 2000 {
            // STG defaults to exp (conflict-freeness only: no product) - fine; others default to aux_var
        }
        let external = if !wrapper && rng.chance(1, 7) {
            Some(ExtSpec { seed: rng.next_u64() >> 40, policy: rng.pick(&["uniform", "mintrue", "maxtrue", "biased"]).to_string(), comment_bytes: *rng.pick(&[0usize, 100, 70_000]) })
        } else {
            None
        };
        let stdout_mode = match frng.below(25) {
            0 => StdoutMode::DevFull,
            1 => StdoutMode::ClosedPipe,
            _ => StdoutMode::Pipe,
        };
        serde_json::to_value(C05Case {
            wrapper,
            apx,
            text,
            file_fault,
            problem,
            arg,
            encoding,
            cert: rng.bool(),
            logging: match rng.below(6) {
                0 => None,
                1 => Some("info".into()),
                2 => Some("warn".into()),
                _ => Some("off".into()),
            },
            external,
            stdout_mode,
        })
        .unwrap()
    }
    fn exec(&self, case: &Value) -> RunResult {
        let case: C05Case = serde_json::from_value(case.clone()).expect("C05 case");
        let mut r = RunResult::default();
        let dir = cli::scratch_dir("c05");
        let (file, bytes) = materialise(&case, &dir);
        let (bin, args) = command_line(&case, &file);
        let out = cli::run(bin, &args, case.stdout_mode, Duration::from_secs(60));
        let _ = std::fs::remove_dir_all(&dir);
        r.count("processes", 1);
        r.count(if case.wrapper { "binary_crustabri_iccma23" } else { "binary_crustabri" }, 1);
        match case.file_fault {
            FileFault::None => {}
            f => r.count(&format!("fault_file_{}", format!("{:?}", f).split('(').next().unwrap().to_lowercase()), 1),
        }
        match case.stdout_mode {
            StdoutMode::Pipe => {}
            m => r.count(&format!("fault_stdout_{:?}", m).to_lowercase(), 1),
        }
        let lines = answer_lines(&out.stdout);
        r.digest.bytes(&out.stdout.iter().copied().filter(|b| *b != b'!').collect::<Vec<u8>>().get(..0).unwrap_or(&[]));
        r.digest.str(&lines.concat());
        r.digest.u64(out.code.unwrap_or(-1) as u64);
        let apx_writer = case.apx && !case.wrapper;
        let logging_on = !case.wrapper && case.logging.as_deref() != Some("off");
        let site = |v: Violation| v.at("binary", bin).at("reader", if apx_writer { "apx" } else { "iccma23" });
        let shown = || format!("`{} {}` (file {:?}) -> exit {:?}, stdout {:?}", bin, args.join(" "), String::from_utf8_lossy(&bytes), out.code, String::from_utf8_lossy(&out.stdout));
        if out.timed_out {
            r.violations.push(site(Violation::new("C05", "hang", format!("no termination within 60 s: {}", shown()))));
            return r;
        }
        if case.stdout_mode != StdoutMode::Pipe {
            // the property promises nothing about the exit status on output errors; it is recorded
            r.count(&format!("stdout_fault_exit_{}", out.code.map(|c| c.to_string()).unwrap_or_else(|| "signal".into())), 1);
            let mut d = Digest::default();
            d.str(&serde_json::to_string(&case).unwrap());
            r.nontrivial = Some(d);
            return r;
        }
        match expectation(&case, &bytes) {
            Expect::Unspecified(why) => {
                r.count("invocations_unspecified", 1);
                r.skipped = Some(format!("unspecified: {}", why));
            }
            Expect::Error(why) => {
                r.count("invocations_expected_error", 1);
                r.count(&format!("error_kind_{}", why.replace(' ', "_")), 1);
                if out.code == Some(0) {
                    r.violations.push(site(Violation::new("C05", "error-exit-status-zero", format!("{} must fail, yet: {}", why, shown())).at("error", why)));
                } else if lines.iter().any(|l| is_answer_line(l)) {
                    r.violations.push(site(Violation::new("C05", "answer-printed-on-error", format!("{}: an answer line was printed: {}", why, shown())).at("error", why)));
                }
            }
            Expect::Answer { labels, atts, query, sem, arg_pos } => {
                r.count("invocations_expected_answer", 1);
                r.count(&format!("problem_{}-{}", query.to_uppercase(), sem.name()), 1);
                let mut sc = SemCache::new(RefAf::new(labels.len(), &atts));
                let v = |check: &str, msg: String| site(Violation::new("C05", check, format!("{}: {}", msg, shown())).at("problem", format!("{}-{}", query.to_uppercase(), sem.name())));
                if out.code != Some(0) {
                    r.violations.push(v("valid-invocation-failed", "a valid invocation on a well-formed file must exit with status 0".into()));
                    return r;
                }
                if !logging_on && String::from_utf8_lossy(&out.stdout) != lines.concat() {
                    r.violations.push(v("log-lines-with-logging-off", "log lines on stdout although logging is off".into()));
                    return r;
                }
                let to_mask = |set: &Vec<String>| -> Result<u32, String> {
                    let mut m = 0u32;
                    for s in set {
                        match labels.iter().position(|l| l == s) {
                            Some(p) if m >> p & 1 == 0 => m |= 1 << p,
                            Some(_) => return Err(format!("{} listed twice", s)),
                            None => return Err(format!("{} is not an argument", s)),
                        }
                    }
                    Ok(m)
                };
                if query == "se" {
                    if lines.len() != 1 {
                        r.violations.push(v("answer-format", format!("expected exactly one answer line, got {}", lines.len())));
                        return r;
                    }
                    if lines[0] == "NO\n" {
                        if !(sem == Sem::ST && sc.exts(Sem::ST).is_empty()) {
                            r.violations.push(v("wrong-answer", "NO printed although an extension exists".into()));
                        }
                    } else {
                        match parse_set(&lines[0], apx_writer).map(|s| to_mask(&s)) {
                            Some(Ok(m)) => {
                                // SE-CO may print any complete extension
                                if !sc.is_ext(sem, m) {
                                    r.violations.push(v("wrong-answer", format!("the printed set is not a {} extension", sem.name())));
                                }
                            }
                            Some(Err(e)) => r.violations.push(v("wrong-answer", e)),
                            None => r.violations.push(v("answer-format", "the witness line does not follow the output format".into())),
                        }
                    }
                } else {
                    let mask = 1u32 << arg_pos.unwrap();
                    let expected = if query == "dc" { sc.cred_any(sem, mask) } else { sc.skep_any(sem, mask) };
                    let cert = case.wrapper || case.cert;
                    let promised = cert && ((query == "dc" && expected) || (query == "ds" && !expected));
                    if lines.is_empty() || (lines[0] != "YES\n" && lines[0] != "NO\n") {
                        r.violations.push(v("answer-format", "first answer line is neither YES nor NO".into()));
                        return r;
                    }
                    if (lines[0] == "YES\n") != expected {
                        r.violations.push(v("wrong-answer", format!("status {} but the semantics dictate {}", lines[0].trim(), if expected { "YES" } else { "NO" })));
                        return r;
                    }
                    if lines.len() != 1 + promised as usize {
                        r.violations.push(v("answer-format", format!("expected {} answer line(s), got {}", 1 + promised as usize, lines.len())));
                        return r;
                    }
                    if promised {
                        let cs = if sem == Sem::PR && query == "dc" { Sem::CO } else { sem };
                        match parse_set(&lines[1], apx_writer).map(|s| to_mask(&s)) {
                            Some(Ok(m)) => {
                                if !sc.is_ext(cs, m) || (query == "dc" && m & mask == 0) || (query == "ds" && m & mask != 0) {
                                    r.violations.push(v("wrong-answer", "the printed certificate is not a valid witness".into()));
                                }
                            }
                            Some(Err(e)) => r.violations.push(v("wrong-answer", e)),
                            None => r.violations.push(v("answer-format", "the witness line does not follow the output format".into())),
                        }
                    }
                }
            }
        }
        let mut d = Digest::default();
        d.str(&serde_json::to_string(&case).unwrap());
        r.nontrivial = Some(d);
        let mut i = Digest::default();
        i.str(&format!("{}{:?}{:?}{:?}", case.problem.to_ascii_uppercase(), case.file_fault, case.stdout_mode, out.code));
        r.interleaving = Some(i);
        r
    }
    fn shrink(&self, case: &Value) -> Vec<Value> {
        let case: C05Case = serde_json::from_value(case.clone()).unwrap();
        let mut out = vec![];
        if case.external.is_some() {
            out.push(C05Case { external: None, ..case.clone() });
        }
        if case.encoding.is_some() {
            out.push(C05Case { encoding: None, ..case.clone() });
        }
        if case.logging.as_deref() != Some("off") {
            out.push(C05Case { logging: Some("off".into()), ..case.clone() });
        }
        if case.cert {
            out.push(C05Case { cert: false, ..case.clone() });
        }
        if case.file_fault != FileFault::None {
            out.push(C05Case { file_fault: FileFault::None, ..case.clone() });
        }
        // drop lines of the instance
        let s = case.text.clone();
        let mut starts = vec![0usize];
        for (i, b) in s.iter().enumerate() {
            if *b == b'\n' && i + 1 < s.len() {
                starts.push(i + 1);
            }
        }
        for (k, st) in starts.iter().enumerate() {
            let en = if k + 1 < starts.len() { starts[k + 1] } else { s.len() };
            let mut t = s.clone();
            t.drain(*st..en);
            out.push(C05Case { text: t, ..case.clone() });
        }
        out.into_iter().map(|c| serde_json::to_value(c).unwrap()).collect()
    }
    fn extra(&self, _tier: Tier, _seed: u64) -> Option<crate::framework::Extra> {
        // `--problems` / `problems`: exactly the 21 accepted strings, case-insensitively
        let mut violations = vec![];
        let mut checked = 0u64;
        let dir = cli::scratch_dir("c05p");
        let inst = dir.join("tiny.af");
        std::fs::write(&inst, b"p af 1\n").unwrap();
        let t = Duration::from_secs(60);
        let listed = |bin: &str, args: &[&str]| -> Vec<String> {
            let o = cli::run(bin, &args.iter().map(|s| s.to_string()).collect::<Vec<_>>(), StdoutMode::Pipe, t);
            let l = answer_lines(&o.stdout).concat();
            l.trim().trim_start_matches('[').trim_end_matches(']').split(',').map(|s| s.to_string()).collect()
        };
        for (bin, args) in [("crustabri", vec!["problems", "--logging-level", "off"]), ("crustabri_iccma23", vec!["--problems"])] {
            let got = listed(bin, &args);
            let mut a = got.clone();
            a.sort();
            let mut b: Vec<String> = PROBLEMS.iter().map(|s| s.to_string()).collect();
            b.sort();
            checked += 1;
            if a != b {
                violations.push((json!({"problems_cmd": bin}), Violation::new("C05", "problems-list", format!("{} lists {:?}, expected the 21 problems", bin, got)).at("binary", bin)));
            }
        }
        let file = inst.to_string_lossy().to_string();
        for p in PROBLEMS.iter() {
            for variant in [p.to_string(), p.to_ascii_lowercase(), p.chars().enumerate().map(|(i, c)| if i % 2 == 0 { c.to_ascii_lowercase() } else { c }).collect::<String>()] {
                let args: Vec<String> = vec!["-f".into(), file.clone(), "-p".into(), variant.clone(), "-a".into(), "1".into()];
                let o = cli::run("crustabri_iccma23", &args, StdoutMode::Pipe, t);
                checked += 1;
                if o.code != Some(0) {
                    violations.push((json!({"problem": variant}), Violation::new("C05", "listed-problem-rejected", format!("problem string {:?} is listed by --problems but rejected (exit {:?})", variant, o.code)).at("binary", "crustabri_iccma23")));
                }
            }
        }
        for bad in ["SE-XX", "XX-GR", "SE_GR", "SE-", "-GR", "SEGR", "SE-GRR", "SSE-GR", "SE-GR-X", "DC-ST-D", "SE--GR", "SE-GR "] {
            let args: Vec<String> = vec!["-f".into(), file.clone(), "-p".into(), bad.into(), "-a".into(), "1".into()];
            let o = cli::run("crustabri_iccma23", &args, StdoutMode::Pipe, t);
            checked += 1;
            if o.code == Some(0) || answer_lines(&o.stdout).iter().any(|l| is_answer_line(l)) {
                violations.push((json!({"problem": bad}), Violation::new("C05", "unlisted-problem-accepted", format!("problem string {:?} is not listed but accepted: exit {:?} stdout {:?}", bad, o.code, String::from_utf8_lossy(&o.stdout))).at("binary", "crustabri_iccma23")));
            }
        }
        let _ = std::fs::remove_dir_all(&dir);
        Some(crate::framework::Extra {
            value: json!({"problems_subcheck": {"processes": checked, "what": "`problems` / `--problems` list exactly the 21 problems; each accepted in upper/lower/mixed case; 12 near-misses rejected"}}),
            violations,
            ..Default::default()
        })
    }
    fn rule(&self) -> String {
        "one run = ONE real process of `crustabri solve` or `crustabri_iccma23` (built from the working tree, guard off) on a generated invocation: instance (either format, <= 6 arguments; 1/10 ill-formed of a listed class, 1/10 one flipped bit), problem (the 21 in random case, 1/12 invalid strings), argument (valid / unknown / missing / superfluous), options (reader, encoding, --with-certificate, logging level incl. default, 1/7 `--external-sat-solver fakesat` with seeded model policy and reply volume up to 70 KB), environment faults (instance path missing / a directory / a dangling symlink / truncated at byte k; stdout = /dev/full or a closed pipe). Oracle: valid invocation on a well-formed file => exit 0 and stdout (minus `![` log lines when logging is on) is exactly the status line and/or one witness line in the writer's format, status = RefSem, witness a valid extension/certificate (any correct one); usage/input error => non-zero exit and no answer line; inputs on which the grammar is silent => termination only; stdout faults => termination only (exit status recorded). Non-trivial = every process; distinct = distinct invocation".into()
    }
    fn assumptions(&self) -> Vec<String> {
        vec![
            "scheduling is not simulated here: a CLI run is single-threaded except inside exec_solver (C16); the binaries are black boxes with injected environment faults".into(),
            "permission-denied cannot be produced as root; missing / directory / dangling symlink stand in for 'unreadable'".into(),
            "60 s watchdog as the only wall-clock verdict (three orders of magnitude above the normal ~50 ms)".into(),
        ]
    }
    fn real_vs_stub(&self) -> Value {
        json!({"real": ["target binaries crustabri and crustabri_iccma23 (guard off, rebuilt from the working tree)", "the OS: files, pipes, /dev/full"], "stub": ["fakesat as the external SAT solver program (real process, controlled behaviour)"]})
    }
}
