//! C13 — instance readers are total and faithful: generated texts (well-formed, ill-formed of a
//! listed class, corrupted) delivered through FaultyRead with an ENUMERATION of stream faults per
//! text (EOF / hard error / bit flip at every offset, chunkings with EINTR).

use crate::framework::{Property, RunResult, Tier, Violation};
use crate::prng::{Digest, Rng};
use crate::streams::{ref_apx, ref_iccma, FaultyRead, ReadPlan, RefParse};
use crustabri::io::{AspartixReader, Iccma23Reader, InstanceReader};
use serde::{Deserialize, Serialize};
use serde_json::{json, Value};
use std::panic::{catch_unwind, AssertUnwindSafe};

#[derive(Clone, Copy, Debug, PartialEq, Eq, Hash, Serialize, Deserialize)]
pub enum Fmt {
    Iccma,
    Apx,
}

#[derive(Clone, Copy, Debug, PartialEq, Eq, Hash, Serialize, Deserialize)]
pub enum Delivery {
    Whole,
    Chunked { seed: u64, max_chunk: usize, interrupt_pct: usize },
    EofAt { at: usize, chunk_seed: u64 },
    ErrorAt { at: usize, chunk_seed: u64 },
    Flip { at: usize, mask: u8, chunk_seed: u64 },
}

#[derive(Clone, Debug, Serialize, Deserialize)]
pub struct C13Case {
    pub fmt: Fmt,
    /// the instance text; in replay files an escaped string (printable ASCII as is, `\\xNN` otherwise)
    #[serde(with = "bytes_esc")]
    pub text: Vec<u8>,
    /// what the generator intended: "well-formed" | "ill-formed:<class>" | "corrupted"
    pub intent: String,
    pub plan: Option<Vec<Delivery>>,
    pub plan_seed: u64,
}

pub struct C13;

mod bytes_esc {
    use serde::{Deserialize, Deserializer, Serializer};
    pub fn serialize<S: Serializer>(b: &Vec<u8>, s: S) -> Result<S::Ok, S::Error> {
        let mut out = String::with_capacity(b.len() + 16);
        for &c in b {
            if (0x20..0x7f).contains(&c) && c != b'\\' {
                out.push(c as char);
            } else {
                out.push_str(&format!("\\x{:02x}", c));
            }
        }
        s.serialize_str(&out)
    }
    pub fn deserialize<'de, D: Deserializer<'de>>(d: D) -> Result<Vec<u8>, D::Error> {
        #[derive(Deserialize)]
        #[serde(untagged)]
        enum Either {
            Esc(String),
            Raw(Vec<u8>), // replay files written before the escaped form
        }
        match Either::deserialize(d)? {
            Either::Raw(v) => Ok(v),
            Either::Esc(t) => {
                let b = t.as_bytes();
                let mut out = Vec::with_capacity(b.len());
                let mut i = 0;
                while i < b.len() {
                    if b[i] == b'\\' && i + 3 < b.len() && b[i + 1] == b'x' {
                        let h = std::str::from_utf8(&b[i + 2..i + 4]).ok().and_then(|h| u8::from_str_radix(h, 16).ok());
                        match h {
                            Some(v) => {
                                out.push(v);
                                i += 4;
                                continue;
                            }
                            None => return Err(serde::de::Error::custom("bad escape in text")),
                        }
                    }
                    out.push(b[i]);
                    i += 1;
                }
                Ok(out)
            }
        }
    }
}

#[derive(Debug, PartialEq, Eq)]
enum Got {
    Ok(Vec<String>, Vec<(usize, usize)>, usize),
    Err,
    Panic(String),
}

fn run_reader(fmt: Fmt, data: &[u8], plan: ReadPlan, r: &mut RunResult) -> Got {
    let mut fr = FaultyRead::new(data, plan);
    let res = catch_unwind(AssertUnwindSafe(|| match fmt {
        Fmt::Iccma => match Iccma23Reader::default().read(&mut fr) {
            Ok(af) => {
                let labels: Vec<String> = af.argument_set().iter().map(|a| a.label().to_string()).collect();
                let pos = |id: usize| af.argument_set().iter().position(|a| a.id() == id).unwrap();
                let mut atts: Vec<(usize, usize)> = af.iter_attacks().map(|a| (pos(a.attacker().id()), pos(a.attacked().id()))).collect();
                let n_listed = atts.len();
                atts.sort();
                atts.dedup();
                // read_arg_from_str on every label and on near misses
                for (i, l) in labels.iter().enumerate() {
                    match Iccma23Reader::default().read_arg_from_str(&af, l) {
                        Ok(a) if a.id() == i => {}
                        _ => return Got::Panic(format!("read_arg_from_str({}) does not return argument {}", l, i)),
                    }
                }
                for bad in ["0".to_string(), (labels.len() + 1).to_string(), "".to_string(), "x".to_string(), "-1".to_string()] {
                    if Iccma23Reader::default().read_arg_from_str(&af, &bad).is_ok() {
                        return Got::Panic(format!("read_arg_from_str({:?}) accepted", bad));
                    }
                }
                Got::Ok(labels, atts, n_listed)
            }
            Err(_) => Got::Err,
        },
        Fmt::Apx => match AspartixReader::default().read(&mut fr) {
            Ok(af) => {
                let labels: Vec<String> = af.argument_set().iter().map(|a| a.label().to_string()).collect();
                let pos = |id: usize| af.argument_set().iter().position(|a| a.id() == id).unwrap();
                let mut atts: Vec<(usize, usize)> = af.iter_attacks().map(|a| (pos(a.attacker().id()), pos(a.attacked().id()))).collect();
                let n_listed = atts.len();
                atts.sort();
                atts.dedup();
                for (i, l) in labels.iter().enumerate() {
                    match AspartixReader::default().read_arg_from_str(&af, l) {
                        Ok(a) if a.id() == i => {}
                        _ => return Got::Panic(format!("read_arg_from_str({}) does not return argument {}", l, i)),
                    }
                }
                for bad in ["", "zz_unknown", "1"] {
                    if AspartixReader::default().read_arg_from_str(&af, bad).is_ok() {
                        return Got::Panic(format!("read_arg_from_str({:?}) accepted", bad));
                    }
                }
                Got::Ok(labels, atts, n_listed)
            }
            Err(_) => Got::Err,
        },
    }));
    r.count("stream_read_calls", fr.reads);
    r.count("faults_fired_eintr", fr.interrupts);
    r.count("faults_fired_read_error", fr.errors);
    match res {
        Ok(g) => g,
        Err(p) => Got::Panic(p.downcast_ref::<String>().cloned().or_else(|| p.downcast_ref::<&str>().map(|s| s.to_string())).unwrap_or_default()),
    }
}

fn classify(fmt: Fmt, bytes: &[u8]) -> RefParse {
    match fmt {
        Fmt::Iccma => ref_iccma(bytes),
        Fmt::Apx => ref_apx(bytes),
    }
}

// ------------------------------------------------------------------------------------ GenText

struct Fw {
    n: usize,
    atts: Vec<(usize, usize)>,
    names: Vec<String>,
}

fn gen_fw(rng: &mut Rng) -> Fw {
    // 1 % large texts (> 8 KiB: beyond the reader's internal buffer, so that stream faults and
    // chunk boundaries also land on buffer refills)
    let large = rng.chance(1, 100);
    let n = if large { rng.range(60, 400) } else { rng.range(0, 6) };
    let mut atts = vec![];
    if n > 0 {
        let m = if large { rng.range(1200, 2200) } else { rng.below(2 * n + 1) };
        for _ in 0..m {
            atts.push((rng.below(n), rng.below(n)));
        }
    }
    let pool = ["a", "b", "c", "x1", "_y", "Arg_2", "d", "e9", "long_argument_name", "Z"];
    let mut names: Vec<String> = vec![];
    while names.len() < n {
        let c = pool[rng.below(pool.len())].to_string();
        let c = if names.contains(&c) { format!("{}{}", c, names.len()) } else { c };
        names.push(c);
    }
    Fw { n, atts, names }
}

/// Line lengths around the buffer sizes a reader may use internally (BufReader's 8 KiB, 16 KiB, a
/// 64 KiB cap, 128 KiB) and well beyond.
const LONG: [usize; 13] = [8190, 8191, 8192, 8193, 16384, 32768, 65534, 65535, 65536, 65537, 70_000, 131_072, 200_000];

/// Makes ONE line of a rendered text very long without changing what it says: a long comment line
/// (ICCMA), or blanks before / after / inside a statement. The reference parser re-validates the
/// result, so a stretch that changed the meaning would surface as a harness error.
fn stretch(rng: &mut Rng, fmt: Fmt, text: &[u8]) -> Vec<u8> {
    let len = *rng.pick(&LONG);
    let mut lines: Vec<Vec<u8>> = text.split_inclusive(|b| *b == b'\n').map(|l| l.to_vec()).collect();
    let is_blank = |l: &Vec<u8>| l.iter().all(|b| b" \t\r\n".contains(b));
    let content: Vec<usize> = (0..lines.len()).filter(|i| !is_blank(&lines[*i]) && lines[*i][0] != b'#').collect();
    if fmt == Fmt::Iccma && (content.is_empty() || rng.bool()) {
        // a comment of exactly `len` bytes, before the first blank line
        let first_blank = (0..lines.len()).find(|i| is_blank(&lines[*i])).unwrap_or(lines.len());
        // the last line may lack its terminator: never insert after it
        let hi = if lines.last().map_or(false, |l| !l.ends_with(b"\n")) { first_blank.min(lines.len() - 1) } else { first_blank };
        let at = rng.below(hi + 1);
        let mut c = vec![b'#'];
        let filler: &[u8] = *rng.pick(&[&b"x"[..], &b" 1 2"[..], &b"p af 3 "[..], &b"#"[..]]);
        while c.len() < len {
            c.push(filler[(c.len() - 1) % filler.len()]);
        }
        c.push(b'\n');
        lines.insert(at, c);
    } else if !content.is_empty() {
        let i = content[rng.below(content.len())];
        let pad = vec![*rng.pick(b" \t"); len];
        let l = &mut lines[i];
        let body_end = l.iter().rposition(|b| !b"\r\n".contains(b)).map_or(0, |p| p + 1);
        match rng.below(3) {
            0 => {
                l.splice(0..0, pad);
            }
            1 => {
                l.splice(body_end..body_end, pad);
            }
            _ => {
                // inside: after the first blank (ICCMA, between two tokens) or after the first comma / parenthesis (Aspartix)
                let at = match fmt {
                    Fmt::Iccma => l.iter().position(|b| *b == b' ' || *b == b'\t'),
                    Fmt::Apx => l.iter().position(|b| *b == b',' || *b == b'(').map(|p| p + 1),
                };
                match at {
                    Some(at) if at < body_end => {
                        l.splice(at..at, pad);
                    }
                    _ => {
                        l.splice(body_end..body_end, pad);
                    }
                }
            }
        }
    }
    lines.concat()
}

fn show(data: &[u8]) -> String {
    if data.len() <= 400 {
        String::from_utf8_lossy(data).to_string()
    } else {
        format!("{}…[{} bytes in all]…{}", String::from_utf8_lossy(&data[..150]), data.len(), String::from_utf8_lossy(&data[data.len() - 150..]))
    }
}

fn sp(rng: &mut Rng, p: usize) -> &'static str {
    if rng.below(100) < p {
        *rng.pick(&[" ", "  ", "\t"])
    } else {
        ""
    }
}

fn render_wellformed(rng: &mut Rng, fmt: Fmt, fw: &Fw) -> Vec<u8> {
    let crlf_mode = rng.below(4); // 0,1: LF; 2: CRLF; 3: mixed
    let space_pct = *rng.pick(&[0usize, 0, 20, 60]);
    let mut lines: Vec<String> = vec![];
    match fmt {
        Fmt::Iccma => {
            let comment_pct = *rng.pick(&[0usize, 0, 25]);
            let c = |rng: &mut Rng, lines: &mut Vec<String>| {
                if rng.below(100) < comment_pct {
                    lines.push(format!("#{}", *rng.pick(&["", " comment", " p af 9", "1 2", "#"])));
                }
            };
            c(rng, &mut lines);
            lines.push(format!("{}p{}af{}{}{}", sp(rng, space_pct), if rng.below(100) < space_pct { "  " } else { " " }, if rng.below(100) < space_pct { "\t" } else { " " }, fw.n, sp(rng, space_pct)));
            let mut atts = fw.atts.clone();
            if !atts.is_empty() && rng.chance(1, 3) {
                let d = atts[rng.below(atts.len())];
                atts.push(d); // duplicate declaration
            }
            for (a, b) in &atts {
                c(rng, &mut lines);
                lines.push(format!("{}{}{}{}{}", sp(rng, space_pct), a + 1, if rng.below(100) < space_pct { "   " } else { " " }, b + 1, sp(rng, space_pct)));
            }
            c(rng, &mut lines);
            for _ in 0..rng.weighted(&[6, 2, 1]) {
                lines.push(String::new()); // trailing blank lines
            }
        }
        Fmt::Apx => {
            let mut names = fw.names.clone();
            if !names.is_empty() && rng.chance(1, 3) {
                let d = names[rng.below(names.len())].clone();
                let at = rng.below(names.len() + 1);
                names.insert(at, d); // duplicate declaration
            }
            for nme in &names {
                lines.push(format!("{}arg({}{}{}).{}", sp(rng, space_pct), sp(rng, space_pct / 2), nme, sp(rng, space_pct / 2), sp(rng, space_pct)));
                if rng.chance(1, 8) {
                    lines.push(sp(rng, 50).to_string());
                }
            }
            let mut atts = fw.atts.clone();
            if !atts.is_empty() && rng.chance(1, 3) {
                let d = atts[rng.below(atts.len())];
                atts.push(d);
            }
            for (a, b) in &atts {
                lines.push(format!("{}att({}{},{}{}).{}", sp(rng, space_pct), sp(rng, space_pct / 2), fw.names[*a], fw.names[*b], sp(rng, space_pct / 2), sp(rng, space_pct)));
                if rng.chance(1, 8) {
                    lines.push(String::new());
                }
            }
        }
    }
    let mut out = String::new();
    let nl = lines.len();
    for (i, l) in lines.iter().enumerate() {
        out.push_str(l);
        let last = i + 1 == nl;
        if last && rng.chance(1, 4) {
            break; // missing final newline
        }
        match crlf_mode {
            2 => out.push_str("\r\n"),
            3 => out.push_str(if rng.bool() { "\r\n" } else { "\n" }),
            _ => out.push('\n'),
        }
    }
    out.into_bytes()
}

fn render_illformed(rng: &mut Rng, fmt: Fmt, fw: &Fw) -> (Vec<u8>, &'static str) {
    let mut lines: Vec<String> = vec![];
    let class;
    match fmt {
        Fmt::Iccma => {
            let n = fw.n.max(1);
            let header = format!("p af {}", n);
            let att = |a: usize, b: usize| format!("{} {}", a, b);
            match rng.below(6) {
                0 => {
                    class = "bad or missing header";
                    match rng.below(4) {
                        0 => {}
                        1 => lines.push("# only a comment".into()),
                        2 => lines.push(att(1, 1)),
                        _ => {
                            lines.push("# c".into());
                            lines.push(att(1, 1));
                            lines.push(header.clone());
                        }
                    }
                }
                1 => {
                    class = "bad or missing header";
                    lines.push(rng.pick(&["p aff 3", "p af", "p af x", "q af 3", "p af -1", "p cnf 3", "af 3", "p af 3 3", "paf 3"]).to_string());
                    lines.push(att(1, 1));
                }
                2 => {
                    class = "index out of range";
                    lines.push(header.clone());
                    for (a, b) in fw.atts.iter().take(2) {
                        lines.push(att(a + 1, b + 1));
                    }
                    // just outside the range, or far outside: values that wrap to a valid index when
                    // truncated to 32 or 64 bits, and numerals longer than any machine integer
                    let j = 1 + rng.below(n) as u128;
                    let bad: String = match rng.below(9) {
                        0 => "0".into(),
                        1 => (n + 1).to_string(),
                        2 => (n + 7).to_string(),
                        3 => ((1u128 << 32) + j).to_string(),
                        4 => ((1u128 << 63) + j).to_string(),
                        5 => ((1u128 << 64) + j).to_string(),
                        6 => (3 * (1u128 << 64) + j).to_string(),
                        7 => ((1u128 << 127) + j).to_string(),
                        _ => format!("1{}{}", "0".repeat(40), j),
                    };
                    lines.push(if rng.bool() { format!("{} 1", bad) } else { format!("1 {}", bad) });
                }
                3 => {
                    class = "wrong arity";
                    lines.push(header.clone());
                    lines.push(rng.pick(&["1", "1 1 1", "1 1 1 1"]).to_string());
                }
                4 => {
                    class = "content after a blank line";
                    lines.push(header.clone());
                    lines.push(att(1, 1));
                    lines.push(String::new());
                    lines.push(att(1, 1));
                }
                _ => {
                    class = "content after a blank line";
                    lines.push(String::new());
                    lines.push(header.clone());
                }
            }
        }
        Fmt::Apx => {
            let names: Vec<String> = if fw.names.len() >= 2 { fw.names.clone() } else { vec!["a".into(), "b".into()] };
            for nme in &names {
                lines.push(format!("arg({}).", nme));
            }
            match rng.below(4) {
                0 => {
                    class = "wrong arity";
                    lines.push(match rng.below(3) {
                        0 => format!("arg({},{}).", names[0], names[1]),
                        1 => format!("att({}).", names[0]),
                        _ => format!("att({},{},{}).", names[0], names[1], names[0]),
                    });
                }
                1 => {
                    class = "undeclared argument";
                    lines.push(if rng.bool() { format!("att({},nope).", names[0]) } else { format!("att(nope,{}).", names[0]) });
                }
                2 => {
                    class = "argument declared after an attack";
                    lines.push(format!("att({},{}).", names[0], names[1]));
                    lines.push(format!("arg({}).", rng.pick(&["late", "a"])));
                }
                _ => {
                    class = "undeclared argument";
                    lines.clear();
                    lines.push("att(a,b).".into());
                    lines.push("arg(a).".into());
                }
            }
        }
    }
    let mut out = String::new();
    for l in &lines {
        out.push_str(l);
        out.push('\n');
    }
    (out.into_bytes(), class)
}

fn corrupt(rng: &mut Rng, text: &[u8]) -> Vec<u8> {
    let mut t = text.to_vec();
    for _ in 0..rng.range(1, 3) {
        if t.is_empty() {
            t.push(*rng.pick(b"p1 #\n(a,.)"));
            continue;
        }
        match rng.below(6) {
            0 => {
                let at = rng.below(t.len());
                t.remove(at);
            }
            1 => {
                let at = rng.below(t.len() + 1);
                t.insert(at, *rng.pick(b"p af01 9\n\r#\t(),.atrg_-+x\x0c\xc3\x00"));
            }
            2 => {
                let at = rng.below(t.len());
                t[at] = *rng.pick(b"p af01 9\n\r#\t(),.atrg_-+x");
            }
            3 => {
                // token-level: delete / duplicate a whitespace-separated token
                let s = String::from_utf8_lossy(&t).to_string();
                let toks: Vec<&str> = s.split_inclusive(|c: char| c == ' ' || c == '\n').collect();
                if toks.len() > 1 {
                    let k = rng.below(toks.len());
                    let mut v: Vec<&str> = toks.clone();
                    if rng.bool() {
                        v.remove(k);
                    } else {
                        v.insert(k, toks[k]);
                    }
                    t = v.concat().into_bytes();
                }
            }
            4 => {
                // swap two lines
                let s = String::from_utf8_lossy(&t).to_string();
                let mut ls: Vec<&str> = s.split_inclusive('\n').collect();
                if ls.len() > 1 {
                    let a = rng.below(ls.len());
                    let b = rng.below(ls.len());
                    ls.swap(a, b);
                    t = ls.concat().into_bytes();
                }
            }
            _ => {
                let at = rng.below(t.len());
                t[at] ^= 1 << rng.below(8);
            }
        }
    }
    t
}

impl Property for C13 {
    fn id(&self) -> &'static str {
        "C13"
    }
    fn level(&self) -> &'static str {
        "fault_enumeration"
    }
    fn runs(&self, tier: Tier) -> u64 {
        match tier {
            Tier::Quick => 100_000,
            Tier::Thorough => 1_000_000,
        }
    }
    fn gen(&self, run_seed: u64, _tier: Tier) -> Value {
        let mut rng = Rng::sub(run_seed, "workload");
        let fmt = if rng.bool() { Fmt::Iccma } else { Fmt::Apx };
        let mut fw = gen_fw(&mut rng);
        // 1 in 150 texts has ONE very long line (comment, padded statement, or a very long name)
        let long_line = rng.chance(1, 150);
        if long_line && fmt == Fmt::Apx && fw.n > 0 && rng.chance(1, 3) {
            let k = rng.below(fw.n);
            let l = *rng.pick(&LONG);
            fw.names[k] = format!("L{}", "y".repeat(l));
        }
        let (text, intent) = match rng.weighted(&[5, 3, 3]) {
            0 => (render_wellformed(&mut rng, fmt, &fw), "well-formed".to_string()),
            1 => {
                let (t, c) = render_illformed(&mut rng, fmt, &fw);
                (t, format!("ill-formed:{}", c))
            }
            _ => {
                let t = render_wellformed(&mut rng, fmt, &fw);
                (corrupt(&mut rng, &t), "corrupted".to_string())
            }
        };
        let text = if long_line && intent != "corrupted" { stretch(&mut rng, fmt, &text) } else { text };
        serde_json::to_value(C13Case { fmt, text, intent, plan: None, plan_seed: run_seed >> 8 }).unwrap()
    }
    fn exec(&self, case: &Value) -> RunResult {
        let case: C13Case = serde_json::from_value(case.clone()).expect("C13 case");
        let mut r = RunResult::default();
        let len = case.text.len();
        // generator self-check: the reference parser agrees with what the generator intended
        let base_class = classify(case.fmt, &case.text);
        if case.plan.is_none() {
            match (&base_class, case.intent.as_str()) {
                (RefParse::WellFormed(..), "well-formed") => {}
                (RefParse::IllFormed(c), i) if i.starts_with("ill-formed:") && &i[11..] == *c => {}
                (_, "corrupted") => {}
                (c, i) => {
                    r.harness_error = Some(format!("reference parser says {:?} for a text generated as {:?}: {:?}", c, i, show(&case.text)));
                    return r;
                }
            }
        }
        let plan: Vec<Delivery> = match &case.plan {
            Some(p) => p.clone(),
            None => {
                let mut prng = Rng::sub(case.plan_seed, "delivery");
                let mut p = vec![Delivery::Whole];
                for _ in 0..4 {
                    let mc = if len > 1024 { *prng.pick(&[16usize, 100, 4096, 8192, 8193]) } else { *prng.pick(&[1usize, 2, 3, 7, 16]) };
                    p.push(Delivery::Chunked { seed: 1 + (prng.next_u64() >> 20), max_chunk: mc, interrupt_pct: *prng.pick(&[0usize, 20, 50]) });
                }
                let offsets: Vec<usize> = if len <= 256 {
                    (0..=len).collect()
                } else {
                    let mut v: Vec<usize> = (0..64).map(|_| prng.below(len + 1)).collect();
                    v.sort();
                    v.dedup();
                    v
                };
                for at in offsets {
                    let cs = if prng.bool() { 0 } else { 1 + (prng.next_u64() >> 20) };
                    p.push(Delivery::EofAt { at, chunk_seed: cs });
                    p.push(Delivery::ErrorAt { at, chunk_seed: cs });
                    if at < len {
                        p.push(Delivery::Flip { at, mask: 1 << prng.below(8), chunk_seed: cs });
                    }
                }
                p
            }
        };
        let mut reference_result: Option<Got> = None;
        let mut inter = Digest::default();
        for d in &plan {
            let mut data = case.text.clone();
            let mut rp = ReadPlan::plain();
            let mut hard_error = false;
            let chunk = |rp: &mut ReadPlan, seed: u64| {
                if seed != 0 {
                    rp.chunk_seed = seed;
                    // small texts: byte-sized chunks; large texts: chunks around the reader's 8 KiB buffer
                    rp.max_chunk = if len > 1024 { [7usize, 64, 1000, 4096, 8193][(seed % 5) as usize] } else { 1 + (seed % 5) as usize };
                    rp.interrupt_pct = [0, 30][(seed % 2) as usize];
                }
            };
            let kind = match d {
                Delivery::Whole => "whole",
                Delivery::Chunked { seed, max_chunk, interrupt_pct } => {
                    rp.chunk_seed = *seed;
                    rp.max_chunk = *max_chunk;
                    rp.interrupt_pct = *interrupt_pct;
                    "chunked"
                }
                Delivery::EofAt { at, chunk_seed } => {
                    data.truncate(*at);
                    chunk(&mut rp, *chunk_seed);
                    "truncated"
                }
                Delivery::ErrorAt { at, chunk_seed } => {
                    rp.error_at = Some((*at).min(len));
                    chunk(&mut rp, *chunk_seed);
                    hard_error = true;
                    "read_error"
                }
                Delivery::Flip { at, mask, chunk_seed } => {
                    if *at < data.len() {
                        data[*at] ^= *mask;
                    }
                    chunk(&mut rp, *chunk_seed);
                    "bit_flip"
                }
            };
            r.count(&format!("deliveries_{}", kind), 1);
            let got = run_reader(case.fmt, &data, rp, &mut r);
            let class = classify(case.fmt, &data);
            r.count(
                match &class {
                    RefParse::WellFormed(..) => "delivered_text_wellformed",
                    RefParse::IllFormed(_) => "delivered_text_illformed_listed_class",
                    RefParse::Unspecified(_) => "delivered_text_unspecified",
                },
                1,
            );
            inter.u64(match &got {
                Got::Ok(..) => 1,
                Got::Err => 2,
                Got::Panic(_) => 3,
            });
            let site = |v: Violation| v.at("format", format!("{:?}", case.fmt)).at("delivery", kind).at("inject", serde_json::to_string(d).unwrap());
            let shown = show(&data);
            if let Got::Panic(p) = &got {
                r.violations.push(site(Violation::new("C13", "panic", format!("{:?} reader panicked ({}) on {:?} delivered as {:?}", case.fmt, p, shown, d))));
                break;
            }
            if hard_error {
                if let Got::Ok(..) = got {
                    r.violations.push(site(Violation::new("C13", "read-error-swallowed", format!("{:?} reader returned a framework although the stream failed at byte {:?} of {:?}", case.fmt, rp.error_at, shown))));
                    break;
                }
                continue;
            }
            match (&class, &got) {
                (RefParse::WellFormed(labels, atts), Got::Ok(gl, ga, _)) => {
                    let mut exp = atts.clone();
                    exp.sort();
                    if labels != gl || &exp != ga {
                        r.violations.push(site(Violation::new("C13", "wrong-framework", format!("{:?} reader read {:?} as arguments {:?} attacks {:?}; declared are {:?} / {:?}", case.fmt, shown, gl, ga, labels, exp))));
                        break;
                    }
                }
                (RefParse::WellFormed(..), Got::Err) => {
                    r.violations.push(site(Violation::new("C13", "wellformed-rejected", format!("{:?} reader rejected the well-formed text {:?} (delivery {:?})", case.fmt, shown, d))));
                    break;
                }
                (RefParse::IllFormed(c), Got::Ok(gl, ga, _)) => {
                    r.violations.push(site(Violation::new("C13", "illformed-accepted", format!("{:?} reader accepted {:?} ({}) as arguments {:?} attacks {:?}", case.fmt, shown, c, gl, ga)).at("class", c)));
                    break;
                }
                _ => {}
            }
            // same bytes => same result whatever the chunking / EINTR schedule
            if matches!(d, Delivery::Whole) {
                reference_result = Some(got);
            } else if matches!(d, Delivery::Chunked { .. }) {
                if let Some(rf) = &reference_result {
                    if rf != &got {
                        r.violations.push(site(Violation::new("C13", "delivery-dependent", format!("{:?} reader result depends on the delivery schedule {:?}: {:?} vs {:?}", case.fmt, d, rf, got))));
                        break;
                    }
                }
            }
        }
        r.digest.bytes(&case.text);
        r.digest.u64(inter.0);
        r.count("texts", 1);
        r.count(&format!("intent_{}", case.intent.split(':').next().unwrap()), 1);
        if len >= 4 {
            let mut d = Digest::default();
            d.bytes(&case.text);
            d.str(&format!("{:?}", case.fmt));
            r.nontrivial = Some(d);
            let mut i = Digest::default();
            i.u64(inter.0);
            i.bytes(&case.text);
            r.interleaving = Some(i);
        }
        r
    }
    fn shrink(&self, case: &Value) -> Vec<Value> {
        let case: C13Case = serde_json::from_value(case.clone()).unwrap();
        let mut out = vec![];
        if case.plan.is_none() {
            let r = self.exec(&serde_json::to_value(&case).unwrap());
            for v in &r.violations {
                if let Some(inj) = v.site.get("inject") {
                    if let Ok(d) = serde_json::from_str::<Delivery>(inj) {
                        // bake truncation / flip into the text so that the case becomes a plain delivery when possible
                        out.push(C13Case { plan: Some(vec![d]), ..case.clone() });
                    }
                }
            }
            return out.into_iter().map(|c| serde_json::to_value(c).unwrap()).collect();
        }
        if let Some(plan) = &case.plan {
            match plan.first() {
                Some(Delivery::EofAt { at, .. }) => {
                    let mut t = case.text.clone();
                    t.truncate(*at);
                    out.push(C13Case { text: t, plan: Some(vec![Delivery::Whole]), intent: "corrupted".into(), ..case.clone() });
                }
                Some(Delivery::Flip { at, mask, .. }) => {
                    let mut t = case.text.clone();
                    if *at < t.len() {
                        t[*at] ^= *mask;
                    }
                    out.push(C13Case { text: t, plan: Some(vec![Delivery::Whole]), intent: "corrupted".into(), ..case.clone() });
                }
                Some(Delivery::Chunked { .. }) => {}
                _ => {}
            }
        }
        // shorten the longest run of one byte (long lines)
        {
            let t = &case.text;
            let (mut best_at, mut best_len, mut i) = (0usize, 0usize, 0usize);
            while i < t.len() {
                let mut j = i;
                while j < t.len() && t[j] == t[i] {
                    j += 1;
                }
                if j - i > best_len {
                    best_at = i;
                    best_len = j - i;
                }
                i = j;
            }
            if best_len >= 64 {
                for cut in [best_len / 2, best_len / 4, best_len / 8, 1024, 64, 8, 1] {
                    if cut >= 1 && cut < best_len {
                        let mut t2 = t.clone();
                        t2.drain(best_at..best_at + cut);
                        out.push(C13Case { text: t2, intent: "corrupted".into(), ..case.clone() });
                    }
                }
            }
        }
        // drop lines, then bytes
        let s = case.text.clone();
        let mut starts = vec![0usize];
        for (i, b) in s.iter().enumerate() {
            if *b == b'\n' && i + 1 < s.len() {
                starts.push(i + 1);
            }
        }
        let nl = starts.len();
        if nl > 48 {
            // many lines: blocks of lines first (halves … 32nds)
            for parts in [2usize, 4, 8, 16, 32] {
                let step = nl.div_ceil(parts);
                let mut k = 0;
                while k < nl {
                    let st = starts[k];
                    let en = if k + step < nl { starts[k + step] } else { s.len() };
                    let mut t = s.clone();
                    t.drain(st..en);
                    out.push(C13Case { text: t, intent: "corrupted".into(), ..case.clone() });
                    k += step;
                }
            }
        } else {
            for (k, st) in starts.iter().enumerate() {
                let en = if k + 1 < starts.len() { starts[k + 1] } else { s.len() };
                let mut t = s.clone();
                t.drain(*st..en);
                out.push(C13Case { text: t, intent: "corrupted".into(), ..case.clone() });
            }
        }
        if s.len() <= 60 {
            for i in 0..s.len() {
                let mut t = s.clone();
                t.remove(i);
                out.push(C13Case { text: t, intent: "corrupted".into(), ..case.clone() });
            }
        }
        out.into_iter().map(|c| serde_json::to_value(c).unwrap()).collect()
    }
    fn extra(&self, tier: Tier, seed: u64) -> Option<crate::framework::Extra> {
        // `crustabri check -f FILE -r FORMAT`: exit status 0 iff the file is accepted
        use crate::cli::{self, StdoutMode};
        let mut x = crate::framework::Extra::default();
        let n = match tier {
            Tier::Quick => 60,
            Tier::Thorough => 3000,
        };
        let dir = cli::scratch_dir("c13check");
        let f = dir.join("instance.txt");
        let mut rng = Rng::new(seed ^ 0xC13C);
        let (mut ok, mut rejected, mut unspecified) = (0u64, 0u64, 0u64);
        for _ in 0..n {
            let fmt = if rng.bool() { Fmt::Iccma } else { Fmt::Apx };
            let fw = gen_fw(&mut rng);
            let text = match rng.below(3) {
                0 => render_wellformed(&mut rng, fmt, &fw),
                1 => render_illformed(&mut rng, fmt, &fw).0,
                _ => {
                    let t = render_wellformed(&mut rng, fmt, &fw);
                    corrupt(&mut rng, &t)
                }
            };
            std::fs::write(&f, &text).unwrap();
            let args: Vec<String> = vec!["check".into(), "-f".into(), f.to_string_lossy().to_string(), "-r".into(), if fmt == Fmt::Apx { "apx".into() } else { "iccma23".into() }, "--logging-level".into(), "off".into()];
            let o = cli::run("crustabri", &args, StdoutMode::Pipe, std::time::Duration::from_secs(60));
            x.evaluations += 1;
            let case = json!({"cli": {"args": args, "text": String::from_utf8_lossy(&text)}});
            let accepted = o.code == Some(0);
            match classify(fmt, &text) {
                RefParse::WellFormed(..) => {
                    ok += 1;
                    if !accepted {
                        x.violations.push((case, Violation::new("C13", "wellformed-rejected", format!("`crustabri check` exit {:?} on the well-formed {:?} file {:?}", o.code, fmt, String::from_utf8_lossy(&text))).at("via", "cli")));
                    }
                }
                RefParse::IllFormed(c) => {
                    rejected += 1;
                    if accepted || o.timed_out {
                        x.violations.push((case, Violation::new("C13", "illformed-accepted", format!("`crustabri check` exit 0 on the ill-formed ({}) {:?} file {:?}", c, fmt, String::from_utf8_lossy(&text))).at("via", "cli").at("class", c)));
                    }
                }
                RefParse::Unspecified(_) => {
                    unspecified += 1;
                    if o.timed_out || o.code.is_none() {
                        x.violations.push((case, Violation::new("C13", "panic", format!("`crustabri check` did not terminate normally on {:?}", String::from_utf8_lossy(&text))).at("via", "cli")));
                    }
                }
            }
        }
        let _ = std::fs::remove_dir_all(&dir);
        x.value = json!({"check_command": {"processes": x.evaluations, "wellformed": ok, "illformed_listed": rejected, "unspecified": unspecified, "what": "`crustabri check -f FILE -r FORMAT` exit status agrees with the reference parser on generated files"}});
        Some(x)
    }
    fn rule(&self) -> String {
        "case = a text of one of the two grammars: (a) well-formed from a known framework (comments, blank lines, CRLF/mixed line ends, missing final newline, surrounding spaces/tabs, duplicate declarations), (b) ill-formed of one LISTED class built by a dedicated operator (no/bad header, index 0 or n+1, arity, undeclared argument, argument after attack, content after blank line), (c) token-/byte-level corruption of (a). FAULT ENUMERATION per text through FaultyRead: whole, 4 seeded chunkings with EINTR, and for EVERY offset k (all when <= 256 bytes): EOF at k, hard read error at k, one flipped bit at k (each also under a seeded chunking). Oracle: never panics; hard error => Err; otherwise what two independent reference parsers say about the bytes actually delivered (WellFormed(F) => Ok(F) with declared order and attack set, IllFormed(listed) => Err, Unspecified => totality only); same bytes => same result for every delivery schedule; read_arg_from_str on every label and near misses. Non-trivial = text of >= 4 bytes; distinct = distinct (format, text)".into()
    }
    fn assumptions(&self) -> Vec<String> {
        vec![
            "RefIccma / RefApx encode the two grammars; inputs on which the property is silent (e.g. `arg(a)x`, `+1` as an index, a lone CR, comments after a blank line, `%` comments in Aspartix) are classified Unspecified and only totality is asserted".into(),
            "declared sizes stay small (numbers have at most the digits the generator wrote), matching the property's 'fits in memory' restriction".into(),
        ]
    }
    fn real_vs_stub(&self) -> Value {
        json!({"real": ["io::Iccma23Reader", "io::AspartixReader", "aa::AAFramework construction by the readers"], "stub": ["the byte stream: FaultyRead over an in-memory file"]})
    }
}
