//! C11 — statuses are invariant under presentation and local to components; answers of different
//! semantics on one framework are mutually consistent. Frameworks of 20-300 arguments: no reference
//! semantics, the oracle is differential; every presentation is solved under a DIFFERENT SAT-oracle
//! behaviour (CaDiCaL steered by seeded assumptions, or plain CaDiCaL).

use crate::cli::{self, answer_lines, StdoutMode};
use crate::dpll::Policy;
use crate::framework::{Property, RunResult, Tier, Violation};
use crate::prng::{Digest, Rng};
use crate::refsem::Sem;
use crate::simsat::{self, BudgetExceeded, OracleCfg};
use crate::statics::{make_dc, make_ds, make_se, Enc};
use crustabri::aa::AAFramework;
use crustabri::io::{Iccma23Reader, InstanceReader};
use serde::{Deserialize, Serialize};
use serde_json::{json, Value};
use std::panic::{catch_unwind, AssertUnwindSafe};
use std::time::Duration;

#[derive(Clone, Copy, Debug, PartialEq, Eq, Serialize, Deserialize)]
pub enum Pool {
    EvenCycle(usize),
    OddCycle(usize),
    Chain(usize),
    SelfAttackerChain(usize),
    Isolated(usize),
}

impl Pool {
    fn size(self) -> usize {
        match self {
            Pool::EvenCycle(k) => 2 * k,
            Pool::OddCycle(k) => 2 * k + 1,
            Pool::Chain(k) | Pool::SelfAttackerChain(k) | Pool::Isolated(k) => k,
        }
    }
    fn has_stable(self) -> bool {
        !matches!(self, Pool::OddCycle(_) | Pool::SelfAttackerChain(_))
    }
    fn attacks(self) -> Vec<(usize, usize)> {
        let n = self.size();
        match self {
            Pool::EvenCycle(_) | Pool::OddCycle(_) => (0..n).map(|i| (i, (i + 1) % n)).collect(),
            Pool::Chain(_) => (0..n.saturating_sub(1)).map(|i| (i, i + 1)).collect(),
            Pool::SelfAttackerChain(_) => std::iter::once((0, 0)).chain((0..n.saturating_sub(1)).map(|i| (i, i + 1))).collect(),
            Pool::Isolated(_) => vec![],
        }
    }
}

#[derive(Clone, Debug, Serialize, Deserialize)]
pub enum Presentation {
    Base,
    /// arguments renamed / reordered by a seeded permutation
    Permuted(u64),
    /// attack lines shuffled and some repeated
    ShuffledDup(u64),
    /// disjoint union with pooled components, labels interleaved by a seeded permutation
    Union(Vec<Pool>, u64),
}

#[derive(Clone, Debug, Serialize, Deserialize)]
pub struct C11Case {
    pub n: usize,
    pub atts: Vec<(u32, u32)>,
    pub queries: Vec<u32>,
    pub presentations: Vec<(Presentation, OracleCfg)>,
    pub via_cli: bool,
}

pub struct C11;

const SEMS: [Sem; 7] = [Sem::GR, Sem::CO, Sem::PR, Sem::ST, Sem::SST, Sem::STG, Sem::ID];

/// text + map from base argument index to 0-based index in the presentation
fn present(case: &C11Case, p: &Presentation) -> (String, Vec<usize>, usize) {
    let n = case.n;
    let (n2, map, mut atts): (usize, Vec<usize>, Vec<(usize, usize)>) = match p {
        Presentation::Base => (n, (0..n).collect(), case.atts.iter().map(|(a, b)| (*a as usize, *b as usize)).collect()),
        Presentation::Permuted(s) => {
            let mut perm: Vec<usize> = (0..n).collect();
            Rng::new(*s).shuffle(&mut perm);
            (n, perm.clone(), case.atts.iter().map(|(a, b)| (perm[*a as usize], perm[*b as usize])).collect())
        }
        Presentation::ShuffledDup(s) => {
            let mut rng = Rng::new(*s);
            let mut a: Vec<(usize, usize)> = case.atts.iter().map(|(a, b)| (*a as usize, *b as usize)).collect();
            let extra: Vec<(usize, usize)> = (0..a.len() / 4 + 1).filter_map(|_| if a.is_empty() { None } else { Some(a[rng.below(a.len())]) }).collect();
            a.extend(extra);
            rng.shuffle(&mut a);
            (n, (0..n).collect(), a)
        }
        Presentation::Union(pool, s) => {
            let extra: usize = pool.iter().map(|p| p.size()).sum();
            let total = n + extra;
            let mut perm: Vec<usize> = (0..total).collect();
            Rng::new(*s).shuffle(&mut perm);
            let mut a: Vec<(usize, usize)> = case.atts.iter().map(|(x, y)| (perm[*x as usize], perm[*y as usize])).collect();
            let mut off = n;
            for c in pool {
                for (x, y) in c.attacks() {
                    a.push((perm[off + x], perm[off + y]));
                }
                off += c.size();
            }
            Rng::new(*s ^ 1).shuffle(&mut a);
            (total, perm[..n].to_vec(), a)
        }
    };
    if matches!(p, Presentation::Permuted(_)) {
        Rng::new(7).shuffle(&mut atts);
    }
    let mut text = format!("p af {}\n", n2);
    for (a, b) in &atts {
        text.push_str(&format!("{} {}\n", a + 1, b + 1));
    }
    (text, map, n2)
}

#[derive(Clone, Debug, PartialEq, Eq)]
enum St {
    Yes,
    No,
    Skipped, // over the SAT-call budget
    Panic(String),
}

struct Answers {
    /// [sem][query][0 = DC, 1 = DS]
    st: Vec<Vec<[St; 2]>>,
    /// SE extension per semantics, as base-independent presentation indices
    se: Vec<Option<Option<Vec<usize>>>>,
    /// certificates of DS-PR NO answers (preferred extensions)
    pr_certs: Vec<Vec<usize>>,
    sat_calls: u64,
    harness: Option<String>,
}

/// crustabri's default solver plus a call counter on the run's hub (budget enforcement only).
struct Budgeted {
    inner: Box<dyn crustabri::sat::SatSolver>,
    hub: simsat::Hub,
}

impl Budgeted {
    fn tick(&self) {
        let mut h = self.hub.borrow_mut();
        h.calls += 1;
        if h.calls > h.call_budget {
            h.budget_exceeded = true;
            drop(h);
            std::panic::panic_any(BudgetExceeded);
        }
    }
}

impl crustabri::sat::SatSolver for Budgeted {
    fn add_clause(&mut self, cl: Vec<crustabri::sat::Literal>) {
        self.inner.add_clause(cl)
    }
    fn solve(&mut self) -> crustabri::sat::SolvingResult {
        self.tick();
        self.inner.solve()
    }
    fn solve_under_assumptions(&mut self, assumptions: &[crustabri::sat::Literal]) -> crustabri::sat::SolvingResult {
        self.tick();
        self.inner.solve_under_assumptions(assumptions)
    }
    fn n_vars(&self) -> usize {
        self.inner.n_vars()
    }
    fn add_listener(&mut self, listener: Box<dyn crustabri::sat::SolvingListener>) {
        self.inner.add_listener(listener)
    }
    fn reserve(&mut self, new_max_id: usize) {
        self.inner.reserve(new_max_id)
    }
}

fn solve_presentation(af: &AAFramework<usize>, qs: &[usize], oracle: OracleCfg, budget: u64) -> Answers {
    let hub = simsat::new_hub(oracle);
    hub.borrow_mut().call_budget = u64::MAX;
    let fac = || -> Box<dyn Fn() -> Box<dyn crustabri::sat::SatSolver>> {
        if oracle.policy == Policy::Cadical {
            // the shipped backend, behind a wrapper that only counts calls against the same budget
            // (an enumeration of thousands of preferred extensions must end as "skipped", not hang)
            let h = std::rc::Rc::clone(&hub);
            Box::new(move || Box::new(Budgeted { inner: crustabri::sat::default_solver(), hub: std::rc::Rc::clone(&h) }) as Box<dyn crustabri::sat::SatSolver>)
        } else {
            simsat::factory(&hub)
        }
    };
    let mut st = vec![];
    let mut se = vec![];
    let mut pr_certs = vec![];
    let guard = |f: &mut dyn FnMut() -> St| -> St {
        let start = hub.borrow().calls;
        hub.borrow_mut().call_budget = start + budget;
        match catch_unwind(AssertUnwindSafe(|| f())) {
            Ok(s) => s,
            Err(p) => {
                if p.downcast_ref::<BudgetExceeded>().is_some() {
                    hub.borrow_mut().budget_exceeded = false;
                    St::Skipped
                } else {
                    St::Panic(p.downcast_ref::<String>().cloned().or_else(|| p.downcast_ref::<&str>().map(|s| s.to_string())).unwrap_or_default())
                }
            }
        }
    };
    for sem in SEMS {
        let mut row = vec![];
        for q in qs {
            let label = q + 1;
            let dc = guard(&mut || {
                let mut s = make_dc(af, sem, Enc::Default, fac());
                if s.is_credulously_accepted(&label) {
                    St::Yes
                } else {
                    St::No
                }
            });
            let mut cert: Option<Vec<usize>> = None;
            let ds = guard(&mut || {
                let mut s = make_ds(af, sem, Enc::Default, fac());
                if sem == Sem::PR {
                    let (b, c) = s.is_skeptically_accepted_with_certificate(&label);
                    cert = c.map(|c| c.iter().map(|a| a.id()).collect());
                    if b {
                        St::Yes
                    } else {
                        St::No
                    }
                } else if s.is_skeptically_accepted(&label) {
                    St::Yes
                } else {
                    St::No
                }
            });
            if let Some(c) = cert {
                pr_certs.push(c);
            }
            row.push([dc, ds]);
        }
        st.push(row);
        let mut ext: Option<Option<Vec<usize>>> = None;
        let r = guard(&mut || {
            let mut s = make_se(af, sem, Enc::Default, fac());
            ext = Some(s.compute_one_extension().map(|e| e.iter().map(|a| a.id()).collect()));
            St::Yes
        });
        se.push(if r == St::Yes { ext } else { None });
    }
    let h = hub.borrow();
    Answers { st, se, pr_certs, sat_calls: h.calls, harness: h.harness_error.clone() }
}

/// polynomial checks on a large framework
struct Big {
    n: usize,
    attackers: Vec<Vec<usize>>,
    attacked: Vec<Vec<usize>>,
}

impl Big {
    fn new(n: usize, atts: &[(usize, usize)]) -> Self {
        let mut attackers = vec![vec![]; n];
        let mut attacked = vec![vec![]; n];
        for (a, b) in atts {
            attackers[*b].push(*a);
            attacked[*a].push(*b);
        }
        Big { n, attackers, attacked }
    }
    fn member(&self, s: &[usize]) -> Vec<bool> {
        let mut m = vec![false; self.n];
        for x in s {
            m[*x] = true;
        }
        m
    }
    fn conflict_free(&self, m: &[bool]) -> bool {
        (0..self.n).all(|a| !m[a] || self.attacked[a].iter().all(|b| !m[*b]))
    }
    fn defended(&self, m: &[bool], a: usize) -> bool {
        self.attackers[a].iter().all(|b| self.attackers[*b].iter().any(|c| m[*c]))
    }
    fn admissible(&self, m: &[bool]) -> bool {
        self.conflict_free(m) && (0..self.n).all(|a| !m[a] || self.defended(m, a))
    }
    fn complete(&self, m: &[bool]) -> bool {
        self.admissible(m) && (0..self.n).all(|a| m[a] || !self.defended(m, a))
    }
    fn stable(&self, m: &[bool]) -> bool {
        self.conflict_free(m) && (0..self.n).all(|a| m[a] || self.attackers[a].iter().any(|b| m[*b]))
    }
    fn grounded(&self) -> Vec<bool> {
        let mut m = vec![false; self.n];
        loop {
            let mut changed = false;
            for a in 0..self.n {
                if !m[a] && self.defended(&m, a) {
                    m[a] = true;
                    changed = true;
                }
            }
            if !changed {
                return m;
            }
        }
    }
}

fn gen_component(rng: &mut Rng, n: usize) -> Vec<(u32, u32)> {
    // sparse, connected-ish random digraph with a few mutual attacks and self-attacks
    let mut atts = vec![];
    for i in 1..n {
        let j = rng.below(i);
        if rng.bool() {
            atts.push((i as u32, j as u32));
        } else {
            atts.push((j as u32, i as u32));
        }
    }
    let extra = n * *rng.pick(&[0usize, 1, 1, 2]) / 2;
    for _ in 0..extra {
        let a = rng.below(n) as u32;
        let b = rng.below(n) as u32;
        if a != b || rng.chance(1, 6) {
            atts.push((a, b));
        }
    }
    for _ in 0..n / 10 {
        let a = rng.below(n) as u32;
        let b = rng.below(n) as u32;
        if a != b {
            atts.push((a, b));
            atts.push((b, a));
        }
    }
    atts.sort();
    atts.dedup();
    atts
}

/// Structured base frameworks: shapes a sparse random digraph practically never has (an argument
/// with hundreds of attackers or targets, a hundred components, a chain or cycle of several
/// hundred arguments, a layered acyclic graph whose unique extension is known). Returns the size,
/// the attacks IN DECLARATION ORDER (not sorted: the order is part of the shape) and the arguments
/// worth querying.
fn gen_structured(rng: &mut Rng) -> (usize, Vec<(u32, u32)>, Vec<u32>) {
    let mut atts: Vec<(u32, u32)> = vec![];
    let mut special: Vec<u32> = vec![];
    let n;
    match rng.below(6) {
        0 => {
            // in-hub: h attacked by k arguments, most of them defeated by a common defender c;
            // 0..3 of them (and 0..2 extra attackers declared last) stay undefeated; h -> x -> y
            let k = *rng.pick(&[17usize, 33, 64, 65, 100, 128, 129, 200, 255, 256, 257, 258, 300, 400]);
            let (c, h, x, y) = (0u32, 1u32, 2u32, 3u32);
            let b0 = 4u32;
            let late = rng.below(3) as u32;
            n = 4 + k + late as usize;
            let undefeated: Vec<u32> = (0..rng.below(4)).map(|_| b0 + rng.below(k) as u32).collect();
            let mut first: Vec<(u32, u32)> = vec![];
            for i in 0..k as u32 {
                if !undefeated.contains(&(b0 + i)) {
                    first.push((c, b0 + i));
                }
                first.push((b0 + i, h));
            }
            match rng.below(3) {
                0 => {}
                1 => first.reverse(),
                _ => rng.shuffle(&mut first),
            }
            atts.extend(first);
            atts.push((h, x));
            atts.push((x, y));
            for j in 0..late {
                atts.push((b0 + k as u32 + j, h)); // decisive attackers declared after all the others
            }
            if rng.chance(1, 3) {
                atts.push((y, b0)); // a cycle through the hub
            }
            special.extend([h, x, y, c, b0, b0 + k as u32 - 1]);
        }
        1 => {
            // out-hub feeding in-hubs: c attacks k arguments, which attack a few targets in groups
            let k = *rng.pick(&[40usize, 64, 65, 130, 257, 300]);
            let t = rng.range(1, 4);
            n = 1 + k + t + 1;
            let spare = (1 + k + t) as u32;
            for i in 0..k as u32 {
                if !rng.chance(1, 40) {
                    atts.push((0, 1 + i));
                }
                atts.push((1 + i, 1 + k as u32 + (i % t as u32)));
            }
            atts.push((spare, 0));
            if rng.bool() {
                atts.push((1 + k as u32, spare)); // the first target defends the hub against its attacker
            }
            special.extend((0..t as u32).map(|j| 1 + k as u32 + j));
            special.extend([0, 1, spare]);
        }
        2 => {
            // many small components
            let comps = rng.range(30, 150);
            let mut at = 0u32;
            for _ in 0..comps {
                let m = match rng.below(6) {
                    0 => 1,
                    1 | 2 => 2,
                    3 => 3,
                    4 => 4,
                    _ => rng.range(2, 6),
                } as u32;
                match rng.below(4) {
                    0 => {
                        for i in 0..m {
                            atts.push((at + i, at + (i + 1) % m)); // cycle (m = 1: self-attack)
                        }
                    }
                    1 => {
                        for i in 0..m.saturating_sub(1) {
                            atts.push((at + i, at + i + 1));
                        }
                    }
                    2 => {
                        for i in 0..m.saturating_sub(1) {
                            atts.push((at + i, at + i + 1));
                            atts.push((at + i + 1, at + i));
                        }
                    }
                    _ => {}
                }
                if rng.chance(1, 4) {
                    special.push(at + rng.below(m as usize) as u32);
                }
                at += m;
            }
            n = at as usize;
            if rng.bool() {
                rng.shuffle(&mut atts);
            }
        }
        3 => {
            // a long chain or cycle with a few chords
            let len = rng.range(100, 500);
            n = len;
            for i in 0..len as u32 - 1 {
                atts.push((i, i + 1));
            }
            if rng.bool() {
                atts.push((len as u32 - 1, 0));
            }
            for _ in 0..rng.below(4) {
                atts.push((rng.below(len) as u32, rng.below(len) as u32));
            }
            if rng.chance(1, 3) {
                atts.reverse();
            }
            special.extend([0, 1, len as u32 / 2, len as u32 - 2, len as u32 - 1]);
        }
        4 => {
            // comb: a backbone chain with k mutual-attack pairs hanging off it, all in ONE component:
            // 2^k preferred / stable extensions, each with more than a hundred members
            let k = rng.range(3, 9);
            let spine = rng.range(60, 300);
            n = spine + 2 * k;
            for i in 0..spine as u32 - 1 {
                atts.push((i, i + 1));
            }
            for j in 0..k as u32 {
                let (x, y) = (spine as u32 + 2 * j, spine as u32 + 2 * j + 1);
                atts.push((x, y));
                atts.push((y, x));
                // the pair touches the spine at a seeded place, in a seeded direction
                let at = rng.below(spine) as u32;
                if rng.bool() {
                    atts.push((x, at));
                } else {
                    atts.push((at, x));
                }
                special.extend([x, y, at]);
            }
            if rng.bool() {
                rng.shuffle(&mut atts);
            }
        }
        _ => {
            // layered acyclic graph: attacks only from a lower to a higher index (unique extension)
            n = rng.range(50, 400);
            let fan = rng.range(1, 4);
            for b in 1..n {
                for _ in 0..rng.below(fan + 1) {
                    let span = *rng.pick(&[3usize, 10, 50, 400]);
                    let a = b - 1 - rng.below(b.min(span));
                    atts.push((a as u32, b as u32));
                }
            }
            if rng.bool() {
                rng.shuffle(&mut atts);
            }
        }
    }
    let mut seen = std::collections::HashSet::new();
    atts.retain(|a| (a.0 as usize) < n && (a.1 as usize) < n && seen.insert(*a));
    special.retain(|q| (*q as usize) < n);
    (n, atts, special)
}

fn draw_pool(rng: &mut Rng, want_stable: bool) -> Pool {
    loop {
        let p = match rng.below(5) {
            0 => Pool::EvenCycle(rng.range(1, 12)),
            1 => Pool::OddCycle(rng.range(1, 12)),
            2 => Pool::Chain(rng.range(1, 30)),
            3 => Pool::SelfAttackerChain(rng.range(1, 10)),
            _ => Pool::Isolated(rng.range(1, 5)),
        };
        if p.has_stable() == want_stable {
            return p;
        }
    }
}

impl Property for C11 {
    fn id(&self) -> &'static str {
        "C11"
    }
    fn runs(&self, tier: Tier) -> u64 {
        match tier {
            Tier::Quick => 600,
            Tier::Thorough => 15_000,
        }
    }
    fn wall_cap(&self, tier: Tier) -> u64 {
        match tier {
            Tier::Quick => 240,
            Tier::Thorough => 1500,
        }
    }
    fn gen(&self, run_seed: u64, _tier: Tier) -> Value {
        let mut rng = Rng::sub(run_seed, "workload");
        let (n, atts, special) = if rng.chance(2, 5) {
            gen_structured(&mut rng)
        } else {
            let n = *rng.pick(&[20usize, 25, 30, 40, 50, 60, 80, 100, 150, 200, 300]);
            let n = rng.range(n * 3 / 4, n).max(20);
            (n, gen_component(&mut rng, n), vec![])
        };
        let queries: Vec<u32> = (0..rng.range(2, 3)).map(|_| if !special.is_empty() && rng.chance(2, 3) { *rng.pick(&special) } else { rng.below(n) as u32 }).collect();
        let mut orng = Rng::sub(run_seed, "oracle");
        let mut oracle = |rng: &mut Rng| {
            if rng.chance(1, 4) {
                OracleCfg::cadical()
            } else {
                OracleCfg { policy: Policy::Steer, seed: rng.next_u64() >> 16, unused_none: rng.bool(), nvars_counts_assumed: rng.bool() }
            }
        };
        let mut presentations = vec![(Presentation::Base, oracle(&mut orng))];
        presentations.push((Presentation::Permuted(rng.next_u64() >> 20), oracle(&mut orng)));
        if rng.bool() {
            presentations.push((Presentation::ShuffledDup(rng.next_u64() >> 20), oracle(&mut orng)));
        }
        let k = rng.range(1, 3);
        let with: Vec<Pool> = (0..k).map(|_| draw_pool(&mut rng, true)).collect();
        presentations.push((Presentation::Union(with.clone(), rng.next_u64() >> 20), oracle(&mut orng)));
        if rng.bool() {
            let mut without = with;
            let at = rng.below(without.len() + 1);
            without.insert(at, draw_pool(&mut rng, false));
            presentations.push((Presentation::Union(without, rng.next_u64() >> 20), oracle(&mut orng)));
        }
        serde_json::to_value(C11Case { n, atts, queries, presentations, via_cli: rng.chance(1, 20) }).unwrap()
    }
    fn exec(&self, case: &Value) -> RunResult {
        let case: C11Case = serde_json::from_value(case.clone()).expect("C11 case");
        let mut r = RunResult::default();
        let budget = 600u64;
        let mut all: Vec<(Answers, Vec<usize>, bool, String, usize)> = vec![];
        for (p, oracle) in &case.presentations {
            let (text, map, n2) = present(&case, p);
            let af = match Iccma23Reader::default().read(&mut text.as_bytes()) {
                Ok(af) => af,
                Err(e) => {
                    r.harness_error = Some(format!("generated presentation rejected: {}", e));
                    return r;
                }
            };
            let qs: Vec<usize> = case.queries.iter().map(|q| map[*q as usize]).collect();
            let ans = solve_presentation(&af, &qs, *oracle, budget);
            if let Some(h) = &ans.harness {
                r.harness_error = Some(h.clone());
            }
            r.count("sat_calls", ans.sat_calls);
            r.count("presentations", 1);
            let no_stable_component = matches!(p, Presentation::Union(pool, _) if pool.iter().any(|c| !c.has_stable()));
            all.push((ans, map, no_stable_component, text, n2));
        }
        let name = |p: &Presentation| format!("{:?}", p).split('(').next().unwrap().to_string();
        let base = &all[0];
        let show = |s: &St| match s {
            St::Yes => "YES".to_string(),
            St::No => "NO".to_string(),
            St::Skipped => "skipped".to_string(),
            St::Panic(p) => format!("panic({})", p),
        };
        // (0) no panics
        for (k, (ans, ..)) in all.iter().enumerate() {
            for (si, row) in ans.st.iter().enumerate() {
                for cell in row {
                    for s in cell {
                        if let St::Panic(p) = s {
                            r.violations.push(Violation::new("C11", "panic", format!("a {} query panicked on presentation {}: {}", SEMS[si].name(), name(&case.presentations[k].0), p)).at("sem", SEMS[si].name()));
                        }
                        if *s == St::Skipped {
                            r.count("queries_skipped_over_budget", 1);
                        } else {
                            r.count("queries_answered", 1);
                        }
                    }
                }
            }
        }
        if !r.violations.is_empty() {
            return r;
        }
        // (1) invariance under presentation / locality
        'outer: for (k, (ans, _, no_stable, _, _)) in all.iter().enumerate().skip(1) {
            for (si, sem) in SEMS.iter().enumerate() {
                for qi in 0..case.queries.len() {
                    for kind in 0..2 {
                        let a0 = &base.0.st[si][qi][kind];
                        let a1 = &ans.st[si][qi][kind];
                        if *a0 == St::Skipped || *a1 == St::Skipped {
                            continue;
                        }
                        let expected = if *sem == Sem::ST && *no_stable {
                            // a component without stable extension: all skeptically, none credulously accepted
                            if kind == 0 {
                                St::No
                            } else {
                                St::Yes
                            }
                        } else {
                            a0.clone()
                        };
                        if *a1 != expected {
                            r.violations.push(
                                Violation::new(
                                    "C11",
                                    "presentation-dependent",
                                    format!(
                                        "{}-{} of base argument {}: {} on the base presentation, {} on presentation {} (expected {}){}",
                                        if kind == 0 { "DC" } else { "DS" },
                                        sem.name(),
                                        case.queries[qi] + 1,
                                        show(a0),
                                        show(a1),
                                        name(&case.presentations[k].0),
                                        show(&expected),
                                        if *no_stable { " [union with a component without stable extension]" } else { "" }
                                    ),
                                )
                                .at("sem", sem.name())
                                .at("kind", if kind == 0 { "DC" } else { "DS" })
                                .at("presentation", name(&case.presentations[k].0)),
                            );
                            break 'outer;
                        }
                    }
                }
            }
        }
        // (2) cross-semantics consistency and polynomial validity, on every presentation
        for (k, (ans, _, _, text, n2)) in all.iter().enumerate() {
            if !r.violations.is_empty() {
                break;
            }
            let atts: Vec<(usize, usize)> = text
                .lines()
                .skip(1)
                .map(|l| {
                    let mut it = l.split(' ');
                    (it.next().unwrap().parse::<usize>().unwrap() - 1, it.next().unwrap().parse::<usize>().unwrap() - 1)
                })
                .collect();
            let big = Big::new(*n2, &atts);
            let pname = name(&case.presentations[k].0);
            let v = |check: &str, msg: String| Violation::new("C11", check, format!("{} [presentation {}]", msg, pname)).at("presentation", pname.clone());
            let idx = |s: Sem| SEMS.iter().position(|x| *x == s).unwrap();
            let ext = |s: Sem| ans.se[idx(s)].clone();
            let gr = big.grounded();
            // returned extensions pass the polynomial checks
            for sem in SEMS {
                if let Some(Some(e)) = ext(sem) {
                    let m = big.member(&e);
                    let ok = match sem {
                        Sem::GR => m == gr,
                        Sem::CO | Sem::PR | Sem::SST | Sem::ID => big.complete(&m),
                        Sem::ST => big.stable(&m),
                        Sem::STG => big.conflict_free(&m),
                    };
                    let mut sorted = e.clone();
                    sorted.sort();
                    sorted.dedup();
                    if !ok || sorted.len() != e.len() {
                        r.violations.push(v("invalid-extension", format!("SE-{} returned a set that fails the polynomial checks of the semantics ({} members)", sem.name(), e.len())).at("sem", sem.name()));
                    }
                } else if let Some(None) = ext(sem) {
                    if sem != Sem::ST {
                        r.violations.push(v("no-extension", format!("SE-{} reported no extension", sem.name())).at("sem", sem.name()));
                    }
                }
            }
            for c in &ans.pr_certs {
                if !big.complete(&big.member(c)) {
                    r.violations.push(v("invalid-extension", "a DS-PR NO-certificate is not even a complete extension".into()).at("sem", "PR"));
                }
            }
            // GR within ID within every returned PR extension
            if let (Some(Some(id)), Some(Some(pr))) = (ext(Sem::ID), ext(Sem::PR)) {
                let idm = big.member(&id);
                let prm = big.member(&pr);
                if (0..*n2).any(|a| gr[a] && !idm[a]) {
                    r.violations.push(v("inclusion", "the grounded extension is not included in the ideal extension".into()).at("pair", "GR-ID"));
                }
                let mut prs = vec![prm];
                for c in &ans.pr_certs {
                    prs.push(big.member(c));
                }
                if prs.iter().any(|p| (0..*n2).any(|a| idm[a] && !p[a])) {
                    r.violations.push(v("inclusion", "the ideal extension is not included in a returned preferred extension".into()).at("pair", "ID-PR"));
                }
            }
            let stable_exists = matches!(ext(Sem::ST), Some(Some(_)));
            // what the grounded extension (computed here, polynomially) settles: its members belong to
            // every complete extension, the arguments it attacks to none; when it settles every
            // argument it is the unique extension of all seven semantics
            let out_by_gr: Vec<bool> = (0..*n2).map(|a| big.attackers[a].iter().any(|b| gr[*b])).collect();
            let gr_total = (0..*n2).all(|a| gr[a] || out_by_gr[a]);
            let qmap = &all[k].1;
            for qi in 0..case.queries.len() {
                let q = qmap[case.queries[qi] as usize];
                let settled = if gr[q] {
                    Some(St::Yes)
                } else if out_by_gr[q] {
                    Some(St::No)
                } else {
                    None
                };
                for sem in SEMS {
                    for kind in 0..2 {
                        let got = ans.st[idx(sem)][qi][kind].clone();
                        if got == St::Skipped {
                            continue;
                        }
                        let expected = match sem {
                            Sem::GR => Some(if gr[q] { St::Yes } else { St::No }),
                            Sem::CO | Sem::PR | Sem::SST | Sem::ID => settled.clone(),
                            // ST and STG follow only when the grounded extension is itself stable
                            Sem::ST | Sem::STG => {
                                if gr_total {
                                    settled.clone()
                                } else {
                                    None
                                }
                            }
                        };
                        if let Some(e) = expected {
                            if got != e {
                                r.violations.push(
                                    v("grounded-consequence", format!("{}-{} of argument {} answered {} but the argument is {} the grounded extension{}", if kind == 0 { "DC" } else { "DS" }, sem.name(), q + 1, show(&got), if gr[q] { "in" } else if out_by_gr[q] { "attacked by" } else { "not in" }, if gr_total { ", which settles every argument" } else { "" }))
                                        .at("sem", sem.name())
                                        .at("kind", if kind == 0 { "DC" } else { "DS" }),
                                );
                            }
                        }
                    }
                }
            }
            for qi in 0..case.queries.len() {
                let get = |s: Sem, kind: usize| ans.st[idx(s)][qi][kind].clone();
                let dcco = get(Sem::CO, 0);
                let dcpr = get(Sem::PR, 0);
                if dcco != St::Skipped && dcpr != St::Skipped && dcco != dcpr {
                    r.violations.push(v("cross-semantics", format!("DC-CO = {} but DC-PR = {}", show(&dcco), show(&dcpr))).at("pair", "DC-CO/DC-PR"));
                }
                for sem in SEMS {
                    if sem == Sem::ST && !stable_exists {
                        continue;
                    }
                    if get(sem, 1) == St::Yes && get(sem, 0) == St::No {
                        r.violations.push(v("cross-semantics", format!("DS-{} is YES but DC-{} is NO although an extension exists", sem.name(), sem.name())).at("pair", "DS=>DC").at("sem", sem.name()));
                    }
                }
                if stable_exists {
                    for kind in 0..2 {
                        let (a, b, c) = (get(Sem::ST, kind), get(Sem::SST, kind), get(Sem::STG, kind));
                        if [&a, &b, &c].iter().all(|x| **x != St::Skipped) && (a != b || a != c) {
                            r.violations.push(v("cross-semantics", format!("a stable extension exists but {} under ST/SST/STG = {}/{}/{}", if kind == 0 { "DC" } else { "DS" }, show(&a), show(&b), show(&c))).at("pair", "ST/SST/STG"));
                        }
                    }
                }
            }
        }
        // (3) a sample through the real binaries (files on disk)
        if case.via_cli && r.violations.is_empty() {
            let dir = cli::scratch_dir("c11");
            let mut outs = vec![];
            for (k, (_, map, no_stable, text, _)) in all.iter().enumerate().take(3) {
                let f = dir.join(format!("p{}.af", k));
                std::fs::write(&f, text).unwrap();
                let q = map[case.queries[0] as usize] + 1;
                for prob in ["DC-CO", "DS-PR", "DC-SST"] {
                    let args: Vec<String> = vec!["-f".into(), f.to_string_lossy().to_string(), "-p".into(), prob.into(), "-a".into(), q.to_string()];
                    let o = cli::run("crustabri_iccma23", &args, StdoutMode::Pipe, Duration::from_secs(120));
                    r.count("processes", 1);
                    let l = answer_lines(&o.stdout);
                    outs.push((k, prob, *no_stable, o.code, l.first().cloned().unwrap_or_default(), o.timed_out));
                }
            }
            let _ = std::fs::remove_dir_all(&dir);
            for (k, prob, _ns, code, status, to) in &outs {
                let b = outs.iter().find(|(k0, p0, ..)| *k0 == 0 && p0 == prob).unwrap();
                if *to {
                    continue;
                }
                if *code != Some(0) || status != &b.4 {
                    r.violations.push(Violation::new("C11", "presentation-dependent", format!("real binary: {} gives {:?} (exit {:?}) on presentation {} and {:?} on the base", prob, status, code, name(&case.presentations[*k].0), b.4)).at("via", "cli"));
                    break;
                }
            }
        }
        let mut d = Digest::default();
        d.str(&serde_json::to_string(&case).unwrap());
        r.digest = d;
        for (ans, ..) in &all {
            for row in &ans.st {
                for cell in row {
                    r.digest.str(&format!("{:?}", cell));
                }
            }
        }
        r.nontrivial = Some(d);
        r.interleaving = Some(r.digest);
        r.count("arguments", case.n as u64);
        r
    }
    fn shrink(&self, case: &Value) -> Vec<Value> {
        let case: C11Case = serde_json::from_value(case.clone()).unwrap();
        let mut out = vec![];
        // fewer presentations (keep the base), fewer queries, then remove arguments from the end
        if case.presentations.len() > 2 {
            for i in 1..case.presentations.len() {
                out.push(C11Case { presentations: vec![case.presentations[0].clone(), case.presentations[i].clone()], ..case.clone() });
            }
        }
        if case.queries.len() > 1 {
            for q in &case.queries {
                out.push(C11Case { queries: vec![*q], ..case.clone() });
            }
        }
        if case.via_cli {
            out.push(C11Case { via_cli: false, ..case.clone() });
        }
        for keep in [case.n / 2, case.n * 3 / 4, case.n - 1] {
            if keep >= 1 && keep < case.n && case.queries.iter().all(|q| (*q as usize) < keep) {
                out.push(C11Case { n: keep, atts: case.atts.iter().copied().filter(|(a, b)| (*a as usize) < keep && (*b as usize) < keep).collect(), ..case.clone() });
            }
        }
        for i in (0..case.atts.len()).step_by((case.atts.len() / 24).max(1)) {
            let mut a = case.atts.clone();
            a.remove(i);
            out.push(C11Case { atts: a, ..case.clone() });
        }
        for (i, (_, o)) in case.presentations.iter().enumerate() {
            if o.policy != Policy::Cadical {
                let mut p = case.presentations.clone();
                p[i].1 = OracleCfg::cadical();
                out.push(C11Case { presentations: p, ..case.clone() });
            }
        }
        out.into_iter().map(|c| serde_json::to_value(c).unwrap()).collect()
    }
    fn rule(&self) -> String {
        "case = a framework of 20..600 arguments — 3/5 a random sparse digraph (tree backbone + extra, mutual and self attacks), 2/5 a STRUCTURED one: an argument with 17..400 attackers mostly defeated by a common defender, with 0..2 decisive attackers declared last; an out-hub with 40..300 targets feeding in-hubs; 30..150 small components; a chain or cycle of 100..500 arguments with chords; a comb (a chain of 60..300 with 3..9 mutual pairs attached: up to 512 preferred extensions of 100+ members); a layered acyclic graph of 50..400 arguments (unique extension = grounded) — read through the real ICCMA'23 reader in 3..5 presentations: base; arguments renamed/reordered; attack lines shuffled and repeated; disjoint union with pooled components that have a stable extension (even cycles, chains, isolated arguments); union with additionally a component WITHOUT stable extension (odd cycle, self-attacker chain). All DC/DS problems for 2..3 arguments of the base component and all SE problems are run on every presentation, each presentation under a different SAT-oracle behaviour (real CaDiCaL steered by 24 seeded assumptions per call, or plain CaDiCaL). Oracle: GROUNDED CONSEQUENCES (absolute): DC/DS-GR equal membership in the grounded extension computed here as a least fixed point; its members are accepted and the arguments it attacks rejected under CO, PR, SST, ID (and under ST, STG when it settles every argument); DIFFERENTIAL: equal statuses across presentations (ST: all-skeptical/none-credulous when a component without stable extension is added); GR within ID within every returned PR extension; DC-CO = DC-PR; skeptical => credulous when an extension exists; ST/SST/STG coincide when SE-ST returns an extension; every returned extension/certificate passes the polynomial checks (conflict-free, admissible, F(S)=S, stable, grounded = lfp). Budget: 600 SAT calls per query (deterministic); over-budget queries are counted as skipped, not passed. 1/20 of the cases also go through the real binaries with files on disk. Non-trivial = every case; distinct = distinct case".into()
    }
    fn assumptions(&self) -> Vec<String> {
        vec![
            "no reference semantics at this size: the oracle is differential plus polynomial validity; maximality of PR/SST/STG extensions is not checked here (C01 does at small size)".into(),
            "fit with the technique is fair, as stated in DESIGN.md: the simulator contributes the per-presentation SAT-oracle behaviour (a status that depends on which model came back is caught even when each presentation alone looks plausible)".into(),
        ]
    }
    fn real_vs_stub(&self) -> Value {
        json!({"real": ["io::Iccma23Reader", "all static solvers with default encoders", "utils::ConnectedComponentsComputer", "sat::CadicalSolver (decides every call)", "target binary crustabri_iccma23 on the 1/20 sample"], "stub": ["SimSat in steering mode (chooses which model CaDiCaL returns)"]})
    }
}
