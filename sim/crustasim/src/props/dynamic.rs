//! C08 — dynamic solvers always answer for the current framework (valid histories);
//! C09 — redundant or invalid updates never corrupt a dynamic solver (histories with a fault stream).

use crate::cases::{string_label, usize_label};
use crate::dpll::Policy;
use crate::framework::{Property, RunResult, Tier, Violation};
use crate::prng::{Digest, Rng};
use crate::refsem::Sem;
use crate::refstore::{Applied, RefStore, Upd, L};
use crate::simsat::{BudgetExceeded, Hub, OracleCfg};
use crate::statics::{check_answer, factory_for, make_dc, make_ds, make_hubs, Answer, Backend, Enc, QKind, Truth, Q};
use crate::simsat::CHub;
use crustabri::aa::Argument;
use crustabri::dynamics::assumptions_on_attacks::{DynamicCompleteSemanticsSolverAttacks, DynamicStableSemanticsSolverAttacks};
use crustabri::dynamics::{
    DummyDynamicConstraintsEncoder, DynamicCompleteSemanticsSolver, DynamicPreferredSemanticsSolver, DynamicSolver,
    DynamicStableSemanticsSolver,
};
use crustabri::solvers::{CredulousAcceptanceComputer, SkepticalAcceptanceComputer};
use crustabri::utils::LabelType;
use serde::{Deserialize, Serialize};
use serde_json::{json, Value};
use std::panic::{catch_unwind, AssertUnwindSafe};

#[derive(Clone, Copy, Debug, PartialEq, Eq, Hash, Serialize, Deserialize)]
pub enum DynKind {
    Complete,
    Stable,
    Preferred,
    CompleteAttacks,
    StableAttacks,
    DummyComplete,
    DummyStable,
    DummyPreferred,
}

pub const DYN_KINDS: [DynKind; 8] = [
    DynKind::Complete,
    DynKind::Stable,
    DynKind::Preferred,
    DynKind::CompleteAttacks,
    DynKind::StableAttacks,
    DynKind::DummyComplete,
    DynKind::DummyStable,
    DynKind::DummyPreferred,
];

pub const FACTORS: [f64; 8] = [1.0, 1.25, 1.5, 2.0, 3.0, 4.0, 1.1, 10.0];

impl DynKind {
    pub fn sem(self) -> Sem {
        match self {
            DynKind::Complete | DynKind::CompleteAttacks | DynKind::DummyComplete => Sem::CO,
            DynKind::Stable | DynKind::StableAttacks | DynKind::DummyStable => Sem::ST,
            DynKind::Preferred | DynKind::DummyPreferred => Sem::PR,
        }
    }
    pub fn supports(self, k: QKind) -> bool {
        match self {
            DynKind::Complete | DynKind::CompleteAttacks => k == QKind::DC,
            DynKind::Preferred => k == QKind::DS,
            _ => k != QKind::SE,
        }
    }
    pub fn is_dummy(self) -> bool {
        matches!(self, DynKind::DummyComplete | DynKind::DummyStable | DynKind::DummyPreferred)
    }
}

#[derive(Clone, Copy, Debug, PartialEq, Eq, Hash, Serialize, Deserialize)]
pub enum Step {
    U(Upd),
    Q { kind: QKind, arg: L, cert: bool },
}

#[derive(Clone, Debug, Serialize, Deserialize)]
pub struct DynCase {
    pub solver: DynKind,
    pub factor: usize,
    pub string_labels: bool,
    pub oracle: OracleCfg,
    #[serde(default = "default_backend")]
    pub backend: Backend,
    pub steps: Vec<Step>,
}

fn default_backend() -> Backend {
    Backend::Sim
}

trait DynObj<T: LabelType>: DynamicSolver<T> + CredulousAcceptanceComputer<T> + SkepticalAcceptanceComputer<T> {}
impl<T: LabelType, X: DynamicSolver<T> + CredulousAcceptanceComputer<T> + SkepticalAcceptanceComputer<T>> DynObj<T> for X {}

fn make_solver<T: LabelType + 'static>(kind: DynKind, factor: f64, backend: Backend, hub: &Hub, chub: &Option<CHub>) -> Box<dyn DynObj<T>> {
    let fac = factory_for(backend, hub, chub);
    match kind {
        DynKind::Complete => Box::new(DynamicCompleteSemanticsSolver::new_with_sat_solver_factory(fac)),
        DynKind::Stable => Box::new(DynamicStableSemanticsSolver::new_with_sat_solver_factory(fac)),
        DynKind::Preferred => Box::new(DynamicPreferredSemanticsSolver::new_with_sat_solver_factory(fac)),
        DynKind::CompleteAttacks => Box::new(DynamicCompleteSemanticsSolverAttacks::new_with_sat_solver_factory_and_arg_factor(fac, factor)),
        DynKind::StableAttacks => Box::new(DynamicStableSemanticsSolverAttacks::new_with_sat_solver_factory_and_arg_factor(fac, factor)),
        DynKind::DummyComplete | DynKind::DummyStable | DynKind::DummyPreferred => {
            let sem = kind.sem();
            let h1 = std::rc::Rc::clone(hub);
            let h2 = std::rc::Rc::clone(hub);
            let c1 = chub.clone();
            let c2 = chub.clone();
            Box::new(DummyDynamicConstraintsEncoder::new(
                Some(Box::new(move |af| make_dc(af, sem, Enc::Default, factory_for(backend, &h1, &c1)))),
                Some(Box::new(move |af| make_ds(af, sem, Enc::Default, factory_for(backend, &h2, &c2)))),
            ))
        }
    }
}

fn panic_text(p: &(dyn std::any::Any + Send)) -> String {
    if let Some(s) = p.downcast_ref::<&str>() {
        s.to_string()
    } else if let Some(s) = p.downcast_ref::<String>() {
        s.clone()
    } else {
        "<non-string panic>".into()
    }
}

fn labels_of<T: LabelType>(ext: &[&Argument<T>], store: &RefStore, mk: &dyn Fn(L) -> T) -> Result<Vec<(usize, L)>, String> {
    let mut out = vec![];
    for a in ext {
        match store.live.iter().find(|(l, _)| &mk(**l) == a.label()) {
            // ids of the solver's private framework are not observable by the caller: only labels are judged
            Some((l, id)) => out.push((*id, *l)),
            None => return Err(format!("certificate member {} is not an argument of the current framework", a.label())),
        }
    }
    Ok(out)
}

pub fn exec_t<T: LabelType + 'static>(prop: &str, case: &DynCase, mk: &dyn Fn(L) -> T, r: &mut RunResult) -> (Hub, Option<CHub>) {
    let (hub, chub) = make_hubs(case.oracle, case.backend, &None);
    hub.borrow_mut().call_budget = 20_000;
    let mut solver: Box<dyn DynObj<T>> = make_solver(case.solver, FACTORS[case.factor % FACTORS.len()], case.backend, &hub, &chub);
    let mut store = RefStore::default();
    let sem = case.solver.sem();
    let mut updates_since_query = 0u64;
    let mut queries_since_update = 0u64;
    let site = |v: Violation| v.at("solver", format!("{:?}", case.solver));
    let mut inter = Digest::default();
    for (k, st) in case.steps.iter().enumerate() {
        match st {
            Step::U(u) => {
                if prop == "C08" && store.classify(u) != Applied::Changed {
                    // C08 is about valid histories only; a redundant/invalid step can only appear here
                    // through shrinking: it is not part of the case (C09 covers it)
                    continue;
                }
                let c = store.apply(u);
                r.count(
                    match c {
                        Applied::Changed => "updates_valid",
                        Applied::NoOp => "faults_redundant_update",
                        Applied::Invalid => "faults_invalid_update",
                    },
                    1,
                );
                inter.u64(10 + c as u64);
                updates_since_query += 1;
                queries_since_update = 0;
                let res = catch_unwind(AssertUnwindSafe(|| match u {
                    Upd::AddArg(l) => {
                        solver.new_argument(mk(*l));
                        Ok(())
                    }
                    Upd::DelArg(l) => solver.remove_argument(&mk(*l)).map_err(|e| e.to_string()),
                    Upd::AddAtt(a, b) => solver.new_attack(&mk(*a), &mk(*b)).map_err(|e| e.to_string()),
                    Upd::DelAtt(a, b) => solver.remove_attack(&mk(*a), &mk(*b)).map_err(|e| e.to_string()),
                }));
                match res {
                    Err(p) => {
                        r.violations.push(site(Violation::new(prop, "update-panic", format!("step {}: {:?} ({:?}) panicked: {}", k + 1, u, c, panic_text(p.as_ref())))).at("update", format!("{:?}", c)));
                        break;
                    }
                    Ok(Ok(())) if c == Applied::Invalid => {
                        r.violations.push(
                            site(Violation::new(prop, "invalid-update-accepted", format!("step {}: invalid update {:?} returned Ok instead of an error", k + 1, u)))
                                .at("update", upd_name(u)),
                        );
                        break;
                    }
                    Ok(Err(e)) if c != Applied::Invalid => {
                        r.violations.push(
                            site(Violation::new(prop, "valid-update-rejected", format!("step {}: {:?} update {:?} returned Err({})", k + 1, c, u, e))).at("update", upd_name(u)),
                        );
                        break;
                    }
                    _ => {}
                }
            }
            Step::Q { kind, arg, cert } => {
                if !store.live.contains_key(arg) || !case.solver.supports(*kind) {
                    continue; // ill-formed after shrinking: skip
                }
                if updates_since_query > 0 {
                    r.count("queries_after_update", 1);
                } else if queries_since_update > 0 {
                    r.count("queries_without_intervening_update", 1);
                }
                updates_since_query = 0;
                queries_since_update += 1;
                let t = mk(*arg);
                let calls_before = hub.borrow().calls;
                let ans = catch_unwind(AssertUnwindSafe(|| {
                    let (b, c) = match (kind, cert) {
                        (QKind::DC, true) => solver.is_credulously_accepted_with_certificate(&t),
                        (QKind::DC, false) => (solver.is_credulously_accepted(&t), None),
                        (QKind::DS, true) => solver.is_skeptically_accepted_with_certificate(&t),
                        (_, _) => (solver.is_skeptically_accepted(&t), None),
                    };
                    Answer::Status(b, c.map(|c| labels_of(&c, &store, mk)))
                }));
                let ans = match ans {
                    Ok(a) => a,
                    Err(p) => {
                        if p.downcast_ref::<BudgetExceeded>().is_some() {
                            Answer::Budget
                        } else {
                            Answer::Panicked(panic_text(p.as_ref()))
                        }
                    }
                };
                if hub.borrow().calls == calls_before && !case.solver.is_dummy() {
                    r.count("answers_served_from_cache", 1);
                }
                if prop == "C18" && case.solver == DynKind::Preferred {
                    // bounded liveness of the dynamic preferred search: one search over the whole current framework
                    let used = hub.borrow().calls - calls_before;
                    let (af, _, _) = store.to_ref();
                    let bound = af.all_co().len() as u64 + af.all_pr().len() as u64 + 1;
                    r.count("dynamic_preferred_queries_bounded", 1);
                    if used > bound {
                        r.violations.push(site(Violation::new(
                            "C18",
                            "call-bound",
                            format!("step {}: DynamicPreferredSemanticsSolver made {} SAT calls for one query; bound |CO|+|PR|+1 = {}", k + 1, used, bound),
                        ))
                        .at("sem", "PR")
                        .at("kind", "DS"));
                        break;
                    }
                }
                inter.u64(match &ans {
                    Answer::Status(true, _) => 1,
                    Answer::Status(false, _) => 2,
                    _ => 3,
                });
                let mut truth = Truth::of(&store);
                let q = Q { kind: *kind, args: vec![*arg], cert: *cert };
                // certificates of the dynamic solvers are returned by both the plain and the
                // certificate entry points of some solvers: only judge them when requested
                let ans = match (ans, cert) {
                    (Answer::Status(b, _), false) => Answer::Status(b, None),
                    (a, _) => a,
                };
                if let Some((check, msg)) = check_answer(&mut truth, sem, &q, &ans) {
                    r.violations.push(
                        site(Violation::new(prop, &check, format!("step {}: {} (history of {} steps, oracle {:?})", k + 1, msg, case.steps.len(), case.oracle.policy)))
                            .at("kind", format!("{:?}", kind))
                            .at("cert", cert),
                    );
                    break;
                }
            }
        }
    }
    let h = hub.borrow();
    r.harness_error = h.harness_error.clone();
    r.digest = h.digest;
    r.digest.u64(inter.0);
    r.count("sat_calls", h.calls);
    r.count("solver_instances", h.instances.len() as u64);
    if h.instances.len() > 1 && !case.solver.is_dummy() {
        r.count("reencodings_on_slot_exhaustion", h.instances.len() as u64 - 1);
    }
    r.count("steps", case.steps.len() as u64);
    r.count(&format!("solver_{:?}", case.solver), 1);
    r.count(&format!("oracle_policy_{:?}", case.oracle.policy), 1);
    let mut i2 = h.result_seq;
    i2.u64(inter.0);
    i2.u64(inter.1);
    r.interleaving = Some(i2);
    drop(h);
    drop(solver);
    (hub, chub)
}

/// Outcome of a history replayed with a backend fault at one global SAT-call position (C17).
pub struct FaultRun {
    pub calls: u64,
    pub fired: bool,
    /// 1-based step during which the fault fired, whether it was a query, whether it unwound, and
    /// what it returned otherwise
    pub at_step: Option<(usize, bool, bool, String)>,
    pub harness_error: Option<String>,
}

/// Replays the VALID part of a history with `fault` armed; stops at the step during which it fires.
pub fn exec_with_fault<T: LabelType + 'static>(case: &DynCase, mk: &dyn Fn(L) -> T, fault: &Option<crate::statics::Fault>) -> FaultRun {
    let (hub, chub) = make_hubs(case.oracle, case.backend, fault);
    hub.borrow_mut().call_budget = 20_000;
    let mut solver: Box<dyn DynObj<T>> = make_solver(case.solver, FACTORS[case.factor % FACTORS.len()], case.backend, &hub, &chub);
    let mut store = RefStore::default();
    let mut out = FaultRun { calls: 0, fired: false, at_step: None, harness_error: None };
    for (k, st) in case.steps.iter().enumerate() {
        let (is_query, res): (bool, Result<String, String>) = match st {
            Step::U(u) => {
                if store.classify(u) != Applied::Changed {
                    continue;
                }
                store.apply(u);
                let r = catch_unwind(AssertUnwindSafe(|| match u {
                    Upd::AddArg(l) => {
                        solver.new_argument(mk(*l));
                        "Ok".to_string()
                    }
                    Upd::DelArg(l) => format!("{:?}", solver.remove_argument(&mk(*l)).map_err(|e| e.to_string())),
                    Upd::AddAtt(a, b) => format!("{:?}", solver.new_attack(&mk(*a), &mk(*b)).map_err(|e| e.to_string())),
                    Upd::DelAtt(a, b) => format!("{:?}", solver.remove_attack(&mk(*a), &mk(*b)).map_err(|e| e.to_string())),
                }));
                (false, r.map_err(|p| panic_text(p.as_ref())))
            }
            Step::Q { kind, arg, cert } => {
                if !store.live.contains_key(arg) || !case.solver.supports(*kind) {
                    continue;
                }
                let t = mk(*arg);
                let r = catch_unwind(AssertUnwindSafe(|| {
                    let (b, c) = match (kind, cert) {
                        (QKind::DC, true) => solver.is_credulously_accepted_with_certificate(&t),
                        (QKind::DC, false) => (solver.is_credulously_accepted(&t), None),
                        (QKind::DS, true) => solver.is_skeptically_accepted_with_certificate(&t),
                        (_, _) => (solver.is_skeptically_accepted(&t), None),
                    };
                    format!("{:?}-{} [{}]{} answered {}{}", kind, case.solver.sem().name(), arg, if *cert { " +cert" } else { "" }, if b { "YES" } else { "NO" }, c.map(|c| format!(" with a certificate of {} arguments", c.len())).unwrap_or_default())
                }));
                (true, r.map_err(|p| panic_text(p.as_ref())))
            }
        };
        if hub.borrow().fault_fired {
            out.fired = true;
            out.at_step = Some((k + 1, is_query, res.is_err(), res.unwrap_or_else(|e| e)));
            break;
        }
        if res.is_err() {
            break; // an abort without a fault is C08's business
        }
    }
    let h = hub.borrow();
    out.calls = h.calls;
    out.harness_error = h.harness_error.clone();
    drop(h);
    drop(solver);
    out
}

fn upd_name(u: &Upd) -> &'static str {
    match u {
        Upd::AddArg(_) => "new_argument",
        Upd::DelArg(_) => "remove_argument",
        Upd::AddAtt(..) => "new_attack",
        Upd::DelAtt(..) => "remove_attack",
    }
}

/// Generates a history. `fault_mode`: 0 none, 1 redundant only, 2 invalid only, 3 both.
pub fn gen_history(rng: &mut Rng, solver: DynKind, fault_mode: usize) -> Vec<Step> {
    let universe = rng.range(2, 8);
    let max_live = rng.range(2, 7).min(universe);
    // 1 history in 250 is LONG (up to 300 steps): whatever a solver does every N-th update, or once
    // the retired variables / tombstones outnumber the live ones
    let n_steps = if rng.chance(1, 250) { *rng.pick(&[100usize, 160, 300]) } else { *rng.pick(&[10usize, 20, 30, 45, 60]) };
    let n_steps = rng.range(n_steps / 2 + 1, n_steps);
    // swarm: update-heavy / query-heavy / grow / shrink-and-regrow
    let (w_upd, w_q) = *rng.pick(&[(5usize, 1usize), (1, 1), (1, 4), (2, 1)]);
    let w_add_arg = rng.range(1, 5);
    let w_del_arg = rng.range(0, 3);
    let w_add_att = rng.range(2, 8);
    let w_del_att = rng.range(0, 4);
    let fault_pct = if fault_mode == 0 { 0 } else { *rng.pick(&[5usize, 12, 25]) };
    let kinds: Vec<QKind> = [QKind::DC, QKind::DS].iter().copied().filter(|k| solver.supports(*k)).collect();
    let mut store = RefStore::default();
    let mut steps: Vec<Step> = vec![];
    let mut removed: Vec<L> = vec![];
    let mut just_updated = false;
    let mut universe = universe;
    let mut max_live = max_live;
    // one third of the histories start from a structured framework (motif compositions, cycles,
    // funnels: frameworks on which the semantics genuinely differ) built by valid updates, followed
    // by a query on every argument; the random phase then edits it
    if rng.chance(1, 3) {
        let fw = crate::cases::gen_framework(rng, &crate::cases::GenParams { max_n: 7, allow_removals: true, single_component_pct: 30 });
        for u in &fw.ops {
            if store.apply(u) == Applied::Changed {
                if let Upd::DelArg(l) = u {
                    removed.push(*l);
                }
                steps.push(Step::U(*u));
            }
        }
        let top = store.live.keys().copied().max().map(|l| l as usize + 1).unwrap_or(0);
        universe = universe.max(top).max(2);
        max_live = max_live.max(store.live.len()).min(universe);
        if !kinds.is_empty() {
            for l in store.live.keys().copied().collect::<Vec<L>>() {
                if rng.chance(2, 3) {
                    steps.push(Step::Q { kind: *rng.pick(&kinds), arg: l, cert: rng.bool() });
                }
            }
        }
    }
    let n_steps = n_steps + steps.len();
    while steps.len() < n_steps {
        let live: Vec<L> = store.live.keys().copied().collect();
        // fault injection: biased to land right after an update that has not been flushed yet
        let fault_now = fault_mode != 0 && rng.below(100) < if just_updated { fault_pct * 2 } else { fault_pct };
        if fault_now {
            let want_redundant = match fault_mode {
                1 => true,
                2 => false,
                _ => rng.bool(),
            };
            let u = if want_redundant {
                let atts: Vec<(usize, usize)> = store.attacks.iter().copied().collect();
                if !atts.is_empty() && rng.bool() {
                    let (x, y) = *rng.pick(&atts);
                    let by_id = |id: usize| *store.live.iter().find(|(_, i)| **i == id).unwrap().0;
                    Some(Upd::AddAtt(by_id(x), by_id(y)))
                } else if !live.is_empty() {
                    Some(Upd::AddArg(*rng.pick(&live)))
                } else {
                    None
                }
            } else {
                let dead: Vec<L> = (0..universe as L + 2).filter(|l| !store.live.contains_key(l)).collect();
                let ghost = if !removed.is_empty() && rng.bool() {
                    let cands: Vec<L> = removed.iter().copied().filter(|l| !store.live.contains_key(l)).collect();
                    if cands.is_empty() {
                        *rng.pick(&dead)
                    } else {
                        *rng.pick(&cands)
                    }
                } else {
                    *rng.pick(&dead)
                };
                match rng.below(4) {
                    0 => Some(Upd::DelArg(ghost)),
                    1 => {
                        if !live.is_empty() {
                            let a = *rng.pick(&live);
                            Some(if rng.bool() { Upd::AddAtt(a, ghost) } else { Upd::AddAtt(ghost, a) })
                        } else {
                            Some(Upd::AddAtt(ghost, ghost))
                        }
                    }
                    2 => {
                        // unknown attack between known arguments
                        if live.len() >= 1 {
                            let a = *rng.pick(&live);
                            let b = *rng.pick(&live);
                            if !store.attacks.contains(&(store.live[&a], store.live[&b])) {
                                Some(Upd::DelAtt(a, b))
                            } else {
                                Some(Upd::DelAtt(a, ghost))
                            }
                        } else {
                            Some(Upd::DelAtt(ghost, ghost))
                        }
                    }
                    _ => {
                        if !live.is_empty() {
                            Some(Upd::DelAtt(ghost, *rng.pick(&live)))
                        } else {
                            Some(Upd::DelArg(ghost))
                        }
                    }
                }
            };
            if let Some(u) = u {
                let c = store.classify(&u);
                if (want_redundant && c == Applied::NoOp) || (!want_redundant && c == Applied::Invalid) {
                    steps.push(Step::U(u));
                    continue;
                }
            }
        }
        let do_query = !live.is_empty() && !kinds.is_empty() && rng.weighted(&[w_upd, w_q]) == 1;
        if do_query {
            steps.push(Step::Q { kind: *rng.pick(&kinds), arg: *rng.pick(&live), cert: rng.bool() });
            just_updated = false;
            continue;
        }
        // a VALID update
        let u = match rng.weighted(&[w_add_arg, w_del_arg, w_add_att, w_del_att]) {
            0 => {
                if live.len() >= max_live {
                    continue;
                }
                let fresh: Vec<L> = (0..universe as L).filter(|l| !store.live.contains_key(l)).collect();
                if fresh.is_empty() {
                    continue;
                }
                // prefer re-adding a label removed earlier
                let back: Vec<L> = fresh.iter().copied().filter(|l| removed.contains(l)).collect();
                Upd::AddArg(if !back.is_empty() && rng.bool() { *rng.pick(&back) } else { *rng.pick(&fresh) })
            }
            1 => {
                if live.is_empty() {
                    continue;
                }
                Upd::DelArg(*rng.pick(&live))
            }
            2 => {
                if live.is_empty() {
                    continue;
                }
                let a = *rng.pick(&live);
                let b = *rng.pick(&live);
                if store.attacks.contains(&(store.live[&a], store.live[&b])) {
                    continue;
                }
                Upd::AddAtt(a, b)
            }
            _ => {
                let atts: Vec<(usize, usize)> = store.attacks.iter().copied().collect();
                if atts.is_empty() {
                    continue;
                }
                let (x, y) = *rng.pick(&atts);
                let by_id = |id: usize| *store.live.iter().find(|(_, i)| **i == id).unwrap().0;
                Upd::DelAtt(by_id(x), by_id(y))
            }
        };
        if let Upd::DelArg(l) = u {
            removed.push(l);
        }
        store.apply(&u);
        steps.push(Step::U(u));
        just_updated = true;
    }
    // liveness half: the solver stays usable once faults stop
    let live: Vec<L> = store.live.keys().copied().collect();
    if !live.is_empty() && !kinds.is_empty() {
        for _ in 0..3 {
            steps.push(Step::Q { kind: *rng.pick(&kinds), arg: *rng.pick(&live), cert: rng.bool() });
        }
    }
    steps
}

pub struct Dyn {
    pub faults: bool,
}

impl Property for Dyn {
    fn id(&self) -> &'static str {
        if self.faults {
            "C09"
        } else {
            "C08"
        }
    }
    fn runs(&self, tier: Tier) -> u64 {
        match tier {
            Tier::Quick => 1_200_000,
            Tier::Thorough => 16_000_000,
        }
    }
    fn gen(&self, run_seed: u64, _tier: Tier) -> Value {
        let mut rng = Rng::sub(run_seed, "workload");
        let solver = *rng.pick(&DYN_KINDS);
        let mut orng = Rng::sub(run_seed, "oracle");
        let oracle = OracleCfg::draw(&mut orng);
        let fault_mode = if self.faults {
            let mut frng = Rng::sub(run_seed, "faults");
            frng.range(1, 3)
        } else {
            0
        };
        let steps = gen_history(&mut rng, solver, fault_mode);
        serde_json::to_value(DynCase { solver, factor: rng.below(FACTORS.len()), string_labels: rng.bool(), oracle, backend: Backend::Sim, steps }).unwrap()
    }
    fn exec(&self, case: &Value) -> RunResult {
        let case: DynCase = serde_json::from_value(case.clone()).expect("dynamic case");
        let mut r = RunResult::default();
        if case.string_labels {
            exec_t(self.id(), &case, &string_label, &mut r);
        } else {
            exec_t(self.id(), &case, &usize_label, &mut r);
        }
        let upd = *r.counters.get("updates_valid").unwrap_or(&0);
        let qau = *r.counters.get("queries_after_update").unwrap_or(&0);
        let faults = *r.counters.get("faults_redundant_update").unwrap_or(&0) + *r.counters.get("faults_invalid_update").unwrap_or(&0);
        if upd >= 2 && qau >= 1 && (!self.faults || faults >= 1) {
            let mut d = Digest::default();
            d.str(&serde_json::to_string(&case).unwrap());
            r.nontrivial = Some(d);
        }
        r
    }
    fn shrink(&self, case: &Value) -> Vec<Value> {
        let case: DynCase = serde_json::from_value(case.clone()).unwrap();
        let mut out: Vec<DynCase> = vec![];
        let n = case.steps.len();
        if n > 2 {
            out.push(DynCase { steps: case.steps[..n / 2].to_vec(), ..case.clone() });
            out.push(DynCase { steps: case.steps[..n - 1].to_vec(), ..case.clone() });
            // drop chunks
            let chunk = (n / 4).max(2);
            let mut i = 0;
            while i + chunk <= n {
                let mut s = case.steps.clone();
                s.drain(i..i + chunk);
                out.push(DynCase { steps: s, ..case.clone() });
                i += chunk;
            }
        }
        for s in crate::framework::list_removals(&case.steps) {
            out.push(DynCase { steps: s, ..case.clone() });
        }
        if case.oracle.policy != Policy::Cadical {
            out.push(DynCase { oracle: OracleCfg::cadical(), ..case.clone() });
            if case.oracle.policy != Policy::MaxTrue {
                out.push(DynCase { oracle: OracleCfg { policy: Policy::MaxTrue, ..case.oracle }, ..case.clone() });
            }
            if case.oracle.seed > 3 {
                for s in 0..3 {
                    out.push(DynCase { oracle: OracleCfg { seed: s, ..case.oracle }, ..case.clone() });
                }
            }
        }
        if case.string_labels {
            out.push(DynCase { string_labels: false, ..case.clone() });
        }
        if case.factor != 3 {
            out.push(DynCase { factor: 3, ..case.clone() });
        }
        out.into_iter().map(|c| serde_json::to_value(c).unwrap()).collect()
    }
    fn rule(&self) -> String {
        let f = if self.faults {
            " A fault stream inserts redundant (existing argument / attack) and/or invalid (unknown argument / attack, label removed earlier) updates, biased to land right after a not-yet-flushed update; the update call must return Err for invalid and Ok for redundant operations, the model is not changed, every later query must answer for the unchanged model and must not panic; >= 3 fault-free queries are appended (liveness once faults stop)."
        } else {
            " Only valid operands are generated."
        };
        format!("case = one of the dynamic solver kinds (complete, stable, preferred, the two assumptions-on-attacks variants with reservation factor in 1.0/1.25/1.5/2.0/3.0/4.0, the recompute-from-scratch wrapper over CO/ST/PR) x label type x SAT-oracle configuration x a history of 6..63 steps (new_argument incl. re-adding removed labels, remove_argument, new_attack, remove_attack, credulous/skeptical queries with/without certificate; swarm weights: update-heavy, query-heavy so that cached answers are hit, growth past the reserved slots, shrink-and-regrow; <= 7 live arguments). RefStore is advanced in lock-step; every answer and certificate is checked against RefSem on the current model.{} Non-trivial = >= 2 valid updates and >= 1 query issued after an update{}; distinct = distinct case", f, if self.faults { " and >= 1 fault injected" } else { "" })
    }
    fn assumptions(&self) -> Vec<String> {
        vec![
            "RefStore + RefSem on the current model are the specification ('as a computation from scratch would')".into(),
            "certificate members are judged by label (ids of the solver's private framework are not observable)".into(),
            "queries only use the kinds each solver supports (DC: complete/stable, DS: stable/preferred); lists are not supported by dynamic solvers".into(),
        ]
    }
    fn real_vs_stub(&self) -> Value {
        json!({"real": ["crustabri::dynamics::* (all six solver types, both buffered encoders)", "solvers::maximal_extension_computer", "aa::AAFramework"], "stub": ["SimSat (arbitrary legal models decide cache contents and enumeration order)"]})
    }
}
