//! C12 — the framework store is a faithful set model under any update history.

use crate::cases::{string_label, usize_label};
use crate::framework::{Property, RunResult, Tier, Violation};
use crate::prng::{Digest, Rng};
use crate::refsem::Sem;
use crate::refstore::{Applied, RefStore, Upd, L};
use crate::statics::Truth;
use crustabri::aa::{AAFramework, ArgumentSet};
use crustabri::utils::LabelType;
use serde::{Deserialize, Serialize};
use serde_json::{json, Value};
use std::panic::{catch_unwind, AssertUnwindSafe};

#[derive(Clone, Debug, Serialize, Deserialize)]
pub struct Case {
    pub string_labels: bool,
    pub init: Vec<L>,
    /// new_argument / remove_argument applied to the ArgumentSet itself BEFORE the framework is
    /// built from it (public API of ArgumentSet): the framework then starts with sparse ids
    #[serde(default)]
    pub pre: Vec<Upd>,
    pub ops: Vec<Upd>,
    /// 0: the plain labels (`a<k>` / 3k+2); n > 0: unusual labels — Strings that are prefixes or
    /// suffixes of one another, differ in case only, are empty or very long; usize labels 0, powers
    /// of two and their neighbours, usize::MAX
    #[serde(default)]
    pub label_scheme: u64,
}

const ODD_STRINGS: [&str; 16] = ["", "a", "A", "ab", "aB", "abc", "b", "bc", " ", "a b", "é", "a\n", "0", "00", "arg(a).", "_"];
const ODD_USIZES: [usize; 16] = [0, 1, 2, 63, 64, 65, 255, 256, 65_535, 65_536, u32::MAX as usize, u32::MAX as usize + 1, usize::MAX, usize::MAX - 1, usize::MAX / 2, 1 << 40];

fn odd_string(scheme: u64, l: L) -> String {
    if scheme == 0 || (l as usize) >= ODD_STRINGS.len() {
        return string_label(l);
    }
    let s = ODD_STRINGS[(l as usize + scheme as usize) % ODD_STRINGS.len()];
    if scheme % 10 == 0 && !s.is_empty() {
        s.repeat(5000) // very long labels with long common prefixes
    } else {
        s.to_string()
    }
}

fn odd_usize(scheme: u64, l: L) -> usize {
    if scheme == 0 || (l as usize) >= ODD_USIZES.len() {
        // keep clear of the pool: 3k+2 could collide with 2, 65, 255 … only below 16 labels, which the pool covers
        return usize_label(l) + 1_000_000;
    }
    ODD_USIZES[(l as usize + scheme as usize) % ODD_USIZES.len()]
}

pub struct C12;

fn gen_ops(rng: &mut Rng, universe: usize, n_ops: usize, store: &mut RefStore, invalid_pct: usize) -> Vec<Upd> {
    // swarm weights per run
    let w_add_arg = rng.range(1, 6);
    let w_del_arg = rng.range(0, 4);
    let w_add_att = rng.range(2, 10);
    let w_del_att = rng.range(0, 5);
    let self_bias = rng.chance(1, 3);
    let mut ops = vec![];
    for _ in 0..n_ops {
        let any = |rng: &mut Rng| rng.below(universe) as L;
        let live: Vec<L> = store.live.keys().copied().collect();
        let live_or_any = |rng: &mut Rng| {
            if !live.is_empty() && rng.below(100) >= invalid_pct {
                *rng.pick(&live)
            } else {
                any(rng)
            }
        };
        let u = match rng.weighted(&[w_add_arg, w_del_arg, w_add_att, w_del_att]) {
            0 => Upd::AddArg(any(rng)),
            1 => Upd::DelArg(live_or_any(rng)),
            2 => {
                let a = live_or_any(rng);
                let b = if self_bias && rng.chance(1, 4) { a } else { live_or_any(rng) };
                Upd::AddAtt(a, b)
            }
            _ => {
                // prefer an existing attack
                let atts: Vec<(usize, usize)> = store.attacks.iter().copied().collect();
                if !atts.is_empty() && rng.below(100) >= invalid_pct {
                    let (x, y) = *rng.pick(&atts);
                    let by_id = |id: usize| *store.live.iter().find(|(_, i)| **i == id).unwrap().0;
                    Upd::DelAtt(by_id(x), by_id(y))
                } else {
                    Upd::DelAtt(live_or_any(rng), live_or_any(rng))
                }
            }
        };
        store.apply(&u);
        ops.push(u);
    }
    ops
}

fn compare<T: LabelType>(af: &AAFramework<T>, store: &RefStore, mk: &dyn Fn(L) -> T, universe: &[L], step: usize) -> Option<Violation> {
    // observers must not panic either
    match catch_unwind(AssertUnwindSafe(|| compare_inner(af, store, mk, universe, step))) {
        Ok(v) => v,
        Err(_) => Some(Violation::new("C12", "panic", format!("after step {}: a read-only observer (counts / iterators / grounded_extension) panicked", step))),
    }
}

fn compare_inner<T: LabelType>(af: &AAFramework<T>, store: &RefStore, mk: &dyn Fn(L) -> T, universe: &[L], step: usize) -> Option<Violation> {
    let v = |check: &str, msg: String| Some(Violation::new("C12", check, format!("after step {}: {}", step, msg)));
    let args = store.args_by_id();
    if af.n_arguments() != args.len() {
        return v("n-arguments", format!("n_arguments = {}, model has {}", af.n_arguments(), args.len()));
    }
    if af.argument_set().len() != args.len() || af.argument_set().is_empty() != args.is_empty() {
        return v("n-arguments", format!("argument_set len/is_empty = {}/{} vs model {}", af.argument_set().len(), af.argument_set().is_empty(), args.len()));
    }
    if af.n_attacks() != store.attacks.len() {
        return v("n-attacks", format!("n_attacks = {}, model has {}", af.n_attacks(), store.attacks.len()));
    }
    if af.max_argument_id() != store.max_id() {
        return v("max-id", format!("max_argument_id = {:?}, model {:?}", af.max_argument_id(), store.max_id()));
    }
    let listed: Vec<(usize, T)> = af.argument_set().iter().map(|a| (a.id(), a.label().clone())).collect();
    let expected: Vec<(usize, T)> = args.iter().map(|(id, l)| (*id, mk(*l))).collect();
    if listed != expected {
        return v("argument-iteration", format!("argument_set().iter() = {:?}, model {:?}", listed, expected));
    }
    for l in universe {
        let t = mk(*l);
        match (af.argument_set().get_argument(&t), store.live.get(l)) {
            (Ok(a), Some(id)) if a.id() == *id && a.label() == &t => {}
            (Err(_), None) => {}
            (r, m) => return v("get-argument", format!("get_argument({}) = {:?}, model id {:?}", t, r.map(|a| a.id()).ok(), m)),
        }
    }
    for id in 0..store.next_id + 2 {
        let has = af.argument_set().has_argument_with_id(id);
        let exp = args.iter().any(|(i, _)| *i == id);
        if has != exp {
            return v("has-id", format!("has_argument_with_id({}) = {}, model {}", id, has, exp));
        }
        if exp {
            let a = af.argument_set().get_argument_by_id(id);
            if a.id() != id {
                return v("has-id", format!("get_argument_by_id({}) has id {}", id, a.id()));
            }
        }
    }
    let mut all: Vec<(usize, usize)> = af.iter_attacks().map(|a| (a.attacker().id(), a.attacked().id())).collect();
    all.sort();
    let exp: Vec<(usize, usize)> = store.attacks.iter().copied().collect();
    if all != exp {
        return v("attack-iteration", format!("iter_attacks = {:?}, model {:?}", all, exp));
    }
    for (id, _) in &args {
        let a = af.argument_set().get_argument_by_id(*id);
        let mut from: Vec<(usize, usize)> = af.iter_attacks_from(a).map(|x| (x.attacker().id(), x.attacked().id())).collect();
        from.sort();
        let ef: Vec<(usize, usize)> = exp.iter().copied().filter(|(x, _)| x == id).collect();
        if from != ef {
            return v("attacks-from", format!("iter_attacks_from({}) = {:?}, model {:?}", id, from, ef));
        }
        let mut to: Vec<(usize, usize)> = af.iter_attacks_to(a).map(|x| (x.attacker().id(), x.attacked().id())).collect();
        to.sort();
        let et: Vec<(usize, usize)> = exp.iter().copied().filter(|(_, y)| y == id).collect();
        if to != et {
            return v("attacks-to", format!("iter_attacks_to({}) = {:?}, model {:?}", id, to, et));
        }
    }
    if args.len() <= 12 {
        let mut t = Truth::of(store);
        let g = t.sem.exts(Sem::GR)[0];
        let got: Vec<(usize, L)> = af
            .grounded_extension()
            .iter()
            .map(|a| (a.id(), args.iter().find(|(i, _)| *i == a.id()).map(|(_, l)| *l).unwrap_or(u16::MAX)))
            .collect();
        match t.set_mask(&got) {
            Ok(m) if m == g => {}
            Ok(m) => return v("grounded", format!("grounded_extension = {}, RefSem {}", t.fmt_set(m), t.fmt_set(g))),
            Err(e) => return v("grounded", format!("grounded_extension: {}", e)),
        }
    }
    None
}

fn exec_t<T: LabelType>(case: &Case, mk: &dyn Fn(L) -> T, r: &mut RunResult) {
    let mut universe: Vec<L> = case.init.clone();
    for u in case.pre.iter().chain(case.ops.iter()) {
        match u {
            Upd::AddArg(a) | Upd::DelArg(a) => universe.push(*a),
            Upd::AddAtt(a, b) | Upd::DelAtt(a, b) => {
                universe.push(*a);
                universe.push(*b)
            }
        }
    }
    universe.sort();
    universe.dedup();
    let mut store = RefStore::default();
    for l in &case.init {
        store.apply(&Upd::AddArg(*l));
    }
    let labels: Vec<T> = case.init.iter().map(|l| mk(*l)).collect();
    let mut set = match catch_unwind(AssertUnwindSafe(|| ArgumentSet::new_with_labels(&labels))) {
        Ok(s) => s,
        Err(_) => {
            r.violations.push(Violation::new("C12", "panic", "ArgumentSet::new_with_labels panicked".into()));
            return;
        }
    };
    for u in &case.pre {
        let c = store.apply(u);
        match u {
            Upd::AddArg(l) => {
                if catch_unwind(AssertUnwindSafe(|| set.new_argument(mk(*l)))).is_err() {
                    r.violations.push(Violation::new("C12", "panic", format!("ArgumentSet::new_argument({}) panicked", l)));
                    return;
                }
            }
            Upd::DelArg(l) => {
                let res = match catch_unwind(AssertUnwindSafe(|| set.remove_argument(&mk(*l)))) {
                    Ok(res) => res,
                    Err(_) => {
                        r.violations.push(Violation::new("C12", "panic", format!("ArgumentSet::remove_argument({}) panicked", l)));
                        return;
                    }
                };
                if res.is_err() != (c == Applied::Invalid) {
                    r.violations.push(Violation::new("C12", "result", format!("ArgumentSet::remove_argument({}) returned {:?}, model says {:?}", l, res.map(|a| a.id()).ok(), c)));
                    return;
                }
            }
            _ => {}
        }
        r.count("argument_set_ops_before_construction", 1);
    }
    let built = catch_unwind(AssertUnwindSafe(|| AAFramework::new_with_argument_set(set)));
    let mut af = match built {
        Ok(af) => af,
        Err(_) => {
            r.violations.push(Violation::new("C12", "panic", "AAFramework::new_with_argument_set panicked".into()));
            return;
        }
    };
    if let Some(v) = compare(&af, &store, mk, &universe, 0) {
        r.violations.push(v);
        return;
    }
    for (k, u) in case.ops.iter().enumerate() {
        let before_ids: Vec<(usize, L)> = store.args_by_id();
        let c = store.apply(u);
        let res = catch_unwind(AssertUnwindSafe(|| match u {
            Upd::AddArg(l) => {
                af.new_argument(mk(*l));
                Ok(())
            }
            Upd::DelArg(l) => af.remove_argument(&mk(*l)).map_err(|e| e.to_string()),
            Upd::AddAtt(a, b) => af.new_attack(&mk(*a), &mk(*b)).map_err(|e| e.to_string()),
            Upd::DelAtt(a, b) => af.remove_attack(&mk(*a), &mk(*b)).map_err(|e| e.to_string()),
        }));
        r.count(match c {
            Applied::Changed => "ops_changed",
            Applied::NoOp => "ops_redundant",
            Applied::Invalid => "ops_invalid",
        }, 1);
        r.digest.u64(k as u64 ^ ((c as u64) << 40));
        match res {
            Err(_) => {
                r.violations.push(Violation::new("C12", "panic", format!("step {} {:?} panicked", k + 1, u)));
                return;
            }
            Ok(res) => {
                if res.is_err() != (c == Applied::Invalid) {
                    r.violations.push(Violation::new(
                        "C12",
                        "result",
                        format!("step {} {:?} returned {:?}, model says {:?}", k + 1, u, res, c),
                    ));
                    return;
                }
            }
        }
        // ids stable for surviving arguments (an observer must not panic either)
        let moved = catch_unwind(AssertUnwindSafe(|| {
            for (id, l) in &before_ids {
                if store.live.get(l) == Some(id) && af.argument_set().get_argument(&mk(*l)).map(|a| a.id()).ok() != Some(*id) {
                    return Some(*l);
                }
            }
            None
        }));
        match moved {
            Ok(None) => {}
            Ok(Some(l)) => {
                r.violations.push(Violation::new("C12", "id-stability", format!("step {}: id of a{} changed", k + 1, l)));
                return;
            }
            Err(_) => {
                r.violations.push(Violation::new("C12", "panic", format!("after step {}: get_argument panicked", k + 1)));
                return;
            }
        }
        if let Some(v) = compare(&af, &store, mk, &universe, k + 1) {
            r.violations.push(v);
            return;
        }
    }
    r.digest.u64(store.next_id as u64);
    r.digest.u64(store.attacks.len() as u64);
}

impl Property for C12 {
    fn id(&self) -> &'static str {
        "C12"
    }
    fn runs(&self, tier: Tier) -> u64 {
        match tier {
            Tier::Quick => 4_000_000,
            Tier::Thorough => 30_000_000,
        }
    }
    fn gen(&self, run_seed: u64, _tier: Tier) -> Value {
        let mut rng = Rng::sub(run_seed, "workload");
        // 1 history in 2000 is LONG (hundreds to thousands of operations, ids far above the number of
        // live arguments, dozens of tombstones, up to 24 labels): whatever a store does every N-th
        // operation or above some size
        let long = rng.chance(1, 2000);
        let universe = if long { *rng.pick(&[2usize, 3, 5, 8, 12, 24]) } else { rng.range(1, 8) };
        let n_ops = if long { *rng.pick(&[300usize, 600, 1200, 2500]) } else { *rng.pick(&[5usize, 10, 20, 40, 80]) };
        let n_ops = rng.range(n_ops / 2 + 1, n_ops);
        let mut init: Vec<L> = vec![];
        for l in 0..universe {
            if rng.chance(1, 3) {
                init.push(l as L);
            }
        }
        rng.shuffle(&mut init);
        let mut store = RefStore::default();
        for l in &init {
            store.apply(&Upd::AddArg(*l));
        }
        let invalid_pct = *rng.pick(&[0usize, 5, 15, 40]);
        let mut pre = vec![];
        if rng.chance(1, 5) {
            for _ in 0..rng.range(1, 5) {
                let l = rng.below(universe) as L;
                let u = if rng.bool() { Upd::AddArg(l) } else { Upd::DelArg(l) };
                store.apply(&u);
                pre.push(u);
            }
        }
        let ops = gen_ops(&mut rng, universe, n_ops, &mut store, invalid_pct);
        // a quarter of the initial label lists repeat a label (only the first occurrence counts)
        if !init.is_empty() && rng.chance(1, 4) {
            for _ in 0..rng.range(1, 3) {
                let d = init[rng.below(init.len())];
                let at = rng.below(init.len() + 1);
                init.insert(at, d);
            }
        }
        let label_scheme = if rng.chance(1, 4) { 1 + rng.below(40) as u64 } else { 0 };
        serde_json::to_value(Case { string_labels: rng.bool(), init, pre, ops, label_scheme }).unwrap()
    }
    fn exec(&self, case: &Value) -> RunResult {
        let case: Case = serde_json::from_value(case.clone()).expect("C12 case");
        let mut r = RunResult::default();
        let scheme = case.label_scheme;
        match (case.string_labels, scheme) {
            (true, 0) => exec_t(&case, &string_label, &mut r),
            (false, 0) => exec_t(&case, &usize_label, &mut r),
            (true, _) => exec_t(&case, &|l| odd_string(scheme, l), &mut r),
            (false, _) => exec_t(&case, &|l| odd_usize(scheme, l), &mut r),
        }
        r.count("ops", case.ops.len() as u64);
        let changed = *r.counters.get("ops_changed").unwrap_or(&0);
        if changed >= 2 {
            let mut d = Digest::default();
            d.str(&serde_json::to_string(&case).unwrap());
            r.nontrivial = Some(d);
        }
        let mut inter = Digest::default();
        for u in &case.ops {
            inter.u64(match u {
                Upd::AddArg(_) => 1,
                Upd::DelArg(_) => 2,
                Upd::AddAtt(..) => 3,
                Upd::DelAtt(..) => 4,
            });
        }
        r.interleaving = Some(inter);
        r
    }
    fn shrink(&self, case: &Value) -> Vec<Value> {
        let case: Case = serde_json::from_value(case.clone()).unwrap();
        let mut out = vec![];
        if case.label_scheme != 0 {
            out.push(Case { label_scheme: 0, ..case.clone() });
        }
        if case.string_labels {
            out.push(Case { string_labels: false, ..case.clone() });
        }
        // drop suffix halves first, then single ops, then init labels
        let n = case.ops.len();
        if n > 1 {
            out.push(Case { ops: case.ops[..n / 2].to_vec(), ..case.clone() });
            out.push(Case { ops: case.ops[..n - 1].to_vec(), ..case.clone() });
        }
        for ops in crate::framework::list_removals(&case.ops) {
            out.push(Case { ops, ..case.clone() });
        }
        for i in 0..case.init.len() {
            let mut init = case.init.clone();
            init.remove(i);
            out.push(Case { init, ..case.clone() });
        }
        for i in 0..case.pre.len() {
            let mut pre = case.pre.clone();
            pre.remove(i);
            out.push(Case { pre, ..case.clone() });
        }
        out.into_iter().map(|c| serde_json::to_value(c).unwrap()).collect()
    }
    fn rule(&self) -> String {
        "case = initial label list (ArgumentSet::new_with_labels; a quarter with repeated labels; a quarter of the runs with unusual labels: empty, case variants, prefixes of one another, 5000-fold repetitions, usize 0 / 2^k / usize::MAX) + 3..80 seeded operations (1 history in 2000: 150..2500 operations over 2..24 labels, so that ids, tombstones and per-argument lists grow far beyond the live size) {new_argument, remove_argument, new_attack, remove_attack} over a universe of 1..8 labels (usize or String), swarm weights and invalid-operand rate redrawn per run; after every operation all public observables are compared with the RefStore set model. Non-trivial = at least 2 state-changing operations; distinct = distinct serialised case".into()
    }
    fn assumptions(&self) -> Vec<String> {
        vec![
            "RefStore (BTreeMap/BTreeSet set model, ids = insertion rank) is the specification of the store".into(),
            "grounded_extension is compared with RefSem's least fixed point".into(),
        ]
    }
    fn real_vs_stub(&self) -> Value {
        json!({"real": ["crustabri::aa::AAFramework", "ArgumentSet", "utils::LabelSet", "utils::grounded_extension"], "stub": ["none (no SAT, no I/O)"]})
    }
}
