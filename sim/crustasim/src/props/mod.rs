pub mod c12;
pub mod dynamic;
pub mod satcalls;
pub mod statq;

use crate::framework::Property;

pub fn all() -> Vec<Box<dyn Property>> {
    vec![
        Box::new(statq::StatQ(statq::Mode::C01)),
        Box::new(statq::StatQ(statq::Mode::C02)),
        Box::new(statq::StatQ(statq::Mode::C03)),
        Box::new(statq::StatQ(statq::Mode::C04)),
        Box::new(statq::StatQ(statq::Mode::C07)),
        Box::new(dynamic::Dyn { faults: false }),
        Box::new(dynamic::Dyn { faults: true }),
        Box::new(c12::C12),
        Box::new(satcalls::C17),
        Box::new(satcalls::C18),
    ]
}
