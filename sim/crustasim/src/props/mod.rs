pub mod c05;
pub mod c06;
pub mod c10;
pub mod c11;
pub mod c12;
pub mod c13;
pub mod c14;
pub mod c15;
pub mod c16;
pub mod dynamic;
pub mod satcalls;
pub mod statq;

use crate::framework::Property;

#[cfg(feature = "proc")]
pub fn all() -> Vec<Box<dyn Property>> {
    // the `proc` build links crustabri with exec_solver routed through the simulated process seam:
    // it serves only the schedule exploration of C16
    vec![Box::new(crate::procsim::ProcSim)]
}

#[cfg(not(feature = "proc"))]
pub fn all() -> Vec<Box<dyn Property>> {
    vec![
        Box::new(statq::StatQ(statq::Mode::C01)),
        Box::new(statq::StatQ(statq::Mode::C02)),
        Box::new(statq::StatQ(statq::Mode::C03)),
        Box::new(statq::StatQ(statq::Mode::C04)),
        Box::new(statq::StatQ(statq::Mode::C07)),
        Box::new(c05::C05),
        Box::new(c06::C06),
        Box::new(dynamic::Dyn { faults: false }),
        Box::new(dynamic::Dyn { faults: true }),
        Box::new(c10::C10),
        Box::new(c11::C11),
        Box::new(c12::C12),
        Box::new(c13::C13),
        Box::new(c14::C14),
        Box::new(c15::C15),
        Box::new(c16::C16),
        Box::new(satcalls::C17),
        Box::new(satcalls::C18),
    ]
}
