pub mod c12;

use crate::framework::Property;

pub fn all() -> Vec<Box<dyn Property>> {
    vec![Box::new(c12::C12)]
}
