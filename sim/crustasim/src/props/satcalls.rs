//! C17 — a failing SAT backend never turns into an answer (fault enumeration over SAT-call
//! positions and fault kinds); C18 — every query terminates within a bounded number of SAT calls.

use crate::cases::{gen_framework, GenParams};
use crate::dpll::Policy;
use crate::framework::{Property, RunResult, Tier, Violation};
use crate::prng::{Digest, Rng};
use crate::props::statq::{normalise, shrink_static, tame_encoder};
use crate::refsem::{RefAf, Sem, ALL_SEMS};
use crate::refstore::{RefStore, L};
use crate::simchild::{ReplyPlan, CHILD_FAULTS};
use crate::simsat::OracleCfg;
use crate::statics::{encoders_for, exec_static, Answer, Backend, Enc, ExecOpts, Fault, QKind, StaticCase, Q};
use serde::{Deserialize, Serialize};
use serde_json::{json, Value};

fn one_query_case(rng: &mut Rng, single_pct: usize, oracle: OracleCfg, backend: Backend) -> StaticCase {
    let max_n = if rng.chance(1, 8) { 10 } else { 8 };
    let fw = gen_framework(rng, &GenParams { max_n, allow_removals: true, single_component_pct: single_pct });
    let mut store = RefStore::default();
    for u in &fw.ops {
        store.apply(u);
    }
    let live: Vec<L> = store.args_by_id().iter().map(|(_, l)| *l).collect();
    let sem = *rng.pick(&ALL_SEMS);
    let kind = if live.is_empty() { QKind::SE } else { *rng.pick(&[QKind::SE, QKind::DC, QKind::DS]) };
    let q = match kind {
        QKind::SE => Q { kind, args: vec![], cert: false },
        _ => Q { kind, args: vec![*rng.pick(&live)], cert: rng.bool() },
    };
    let enc = tame_encoder(*rng.pick(&encoders_for(sem, kind)), &store);
    StaticCase { fw, sem, enc, oracle, backend, queries: vec![q], reuse_objects: false, fault: None }
}

// ------------------------------------------------------------------------------------------ C17

#[derive(Clone, Debug, Serialize, Deserialize)]
pub struct C17Case {
    pub base: StaticCase,
    /// when present the case is a HISTORY on a dynamic solver (the static `base` is ignored): the
    /// fault is injected at a global SAT-call position of the history
    #[serde(default)]
    pub dynamic: Option<crate::props::dynamic::DynCase>,
    /// None: enumerate every (position, kind); Some: only these injections (replay files)
    pub plan: Option<Vec<Fault>>,
}

pub struct C17;

fn fault_name(f: &Fault) -> String {
    match f {
        Fault::SatUnknown { .. } => "unknown-result".into(),
        Fault::Child { kind, .. } => kind.name().into(),
    }
}
fn fault_at(f: &Fault) -> u64 {
    match f {
        Fault::SatUnknown { at } | Fault::Child { at, .. } => *at,
    }
}

/// C17 on a dynamic solver: the fault is injected at every (sampled) global SAT-call position of a
/// valid update/query history; the QUERY during which it fires must unwind.
fn exec_dynamic_faults(d: &crate::props::dynamic::DynCase, plan: &Option<Vec<Fault>>) -> RunResult {
    use crate::cases::{string_label, usize_label};
    use crate::props::dynamic::exec_with_fault;
    let mut r = RunResult::default();
    let run = |f: &Option<Fault>| if d.string_labels { exec_with_fault(d, &string_label, f) } else { exec_with_fault(d, &usize_label, f) };
    let dry = run(&None);
    r.harness_error = dry.harness_error.clone();
    r.count("sat_calls_dry", dry.calls);
    r.count("dynamic_histories", 1);
    let k_calls = dry.calls;
    let plan: Vec<Fault> = match plan {
        Some(p) => p.clone(),
        None => {
            let positions: Vec<u64> = if k_calls <= 8 {
                (1..=k_calls).collect()
            } else {
                let mut prng = Rng::sub(d.oracle.seed ^ 0xD17, "positions");
                let mut v: Vec<u64> = vec![1, k_calls];
                while v.len() < 8 {
                    let p = prng.range(1, k_calls as usize) as u64;
                    if !v.contains(&p) {
                        v.push(p);
                    }
                }
                v.sort();
                v
            };
            let mut plan = vec![];
            for at in positions {
                match d.backend {
                    Backend::Sim => plan.push(Fault::SatUnknown { at }),
                    Backend::Ext { .. } => {
                        // three of the reply-fault kinds per position, rotating with the position
                        for j in 0..3 {
                            let kind = CHILD_FAULTS[(at as usize * 3 + j) % CHILD_FAULTS.len()];
                            plan.push(Fault::Child { at, kind });
                        }
                    }
                    Backend::Cadical | Backend::Process { .. } => {}
                }
            }
            plan
        }
    };
    let mut inter = Digest::default();
    for f in &plan {
        let out = run(&Some(f.clone()));
        r.count("injections", 1);
        if !out.fired {
            r.count("injections_not_manifest", 1);
            continue;
        }
        r.count(&format!("fault_fired_{}", fault_name(f)), 1);
        inter.u64(fault_at(f));
        inter.str(&fault_name(f));
        match &out.at_step {
            Some((_, _, true, _)) => r.count("aborted_as_required", 1),
            Some((_, false, false, _)) => r.count("fault_during_update_not_judged", 1),
            Some((step, true, false, what)) => {
                r.violations.push(
                    Violation::new("C17", "fault-became-answer", format!("dynamic solver {:?}, step {}: backend failure `{}` at SAT call {}/{} of the history, yet {}", d.solver, step, fault_name(f), fault_at(f), k_calls, what))
                        .at("fault", fault_name(f))
                        .at("backend", if d.backend == Backend::Sim { "trait" } else { "dimacs-parser" })
                        .at("solver", format!("{:?}", d.solver))
                        .at("inject", serde_json::to_string(f).unwrap()),
                );
            }
            None => {}
        }
    }
    let fired: u64 = r.counters.iter().filter(|(k, _)| k.starts_with("fault_fired_")).map(|(_, v)| *v).sum();
    r.digest.str(&serde_json::to_string(d).unwrap());
    r.digest.u64(inter.0);
    if fired >= 1 {
        let mut dg = Digest::default();
        dg.str(&serde_json::to_string(d).unwrap());
        r.nontrivial = Some(dg);
        r.interleaving = Some(inter);
    }
    r
}

impl Property for C17 {
    fn id(&self) -> &'static str {
        "C17"
    }
    fn level(&self) -> &'static str {
        "fault_enumeration"
    }
    fn runs(&self, tier: Tier) -> u64 {
        match tier {
            Tier::Quick => 300_000,
            Tier::Thorough => 5_000_000,
        }
    }
    fn gen(&self, run_seed: u64, _tier: Tier) -> Value {
        let mut rng = Rng::sub(run_seed, "workload");
        let oracle = OracleCfg::draw(&mut rng);
        let backend = if rng.chance(3, 5) {
            let mut prng = Rng::sub(run_seed, "delivery");
            Backend::Ext { plan: ReplyPlan::draw(&mut prng), vary_plan: rng.chance(1, 4) }
        } else {
            Backend::Sim
        };
        let mut oracle = oracle;
        if backend != Backend::Sim && oracle.policy == Policy::Cadical {
            oracle.policy = Policy::MaxTrue;
        }
        let base = one_query_case(&mut rng, 30, oracle, backend);
        // one case in thirty is a history on a dynamic solver
        let dynamic = if rng.chance(1, 30) {
            use crate::props::dynamic::{gen_history, DynCase, DYN_KINDS, FACTORS};
            let solver = *rng.pick(&DYN_KINDS);
            let steps = gen_history(&mut rng, solver, 0);
            Some(DynCase { solver, factor: rng.below(FACTORS.len()), string_labels: rng.bool(), oracle: base.oracle, backend: base.backend, steps })
        } else {
            None
        };
        serde_json::to_value(C17Case { base, plan: None, dynamic }).unwrap()
    }
    fn exec(&self, case: &Value) -> RunResult {
        let case: C17Case = serde_json::from_value(case.clone()).expect("C17 case");
        if let Some(d) = &case.dynamic {
            return exec_dynamic_faults(d, &case.plan);
        }
        let base = normalise(&case.base);
        let mut r = RunResult::default();
        if base.queries.is_empty() {
            r.skipped = Some("no query left".into());
            return r;
        }
        // step 1: fault-free dry run
        let dry = exec_static(&StaticCase { fault: None, ..base.clone() }, ExecOpts::default());
        let (k_calls, dry_digests, dry_digest) = {
            let h = dry.hub.borrow();
            if let Some(e) = &h.harness_error {
                r.harness_error = Some(e.clone());
            }
            (h.calls, h.call_digests.clone(), h.digest)
        };
        r.digest = dry_digest;
        r.count("sat_calls_dry", k_calls);
        r.count(&format!("backend_{}", if base.backend == Backend::Sim { "trait" } else { "dimacs_parser" }), 1);
        if matches!(dry.answers[0], Answer::Panicked(_) | Answer::Budget) {
            // not this property's business (C01-C04 report it); no fault-free baseline to compare with
            r.skipped = Some("dry run did not answer".into());
            return r;
        }
        // step 2: enumerate injections
        let plan: Vec<Fault> = match &case.plan {
            Some(p) => p.clone(),
            None => {
                let positions: Vec<u64> = if k_calls <= 24 {
                    (1..=k_calls).collect()
                } else {
                    let mut prng = Rng::sub(base.oracle.seed ^ 0xC17, "positions");
                    let mut v: Vec<u64> = vec![1, k_calls];
                    while v.len() < 24 {
                        let p = prng.range(1, k_calls as usize) as u64;
                        if !v.contains(&p) {
                            v.push(p);
                        }
                    }
                    v.sort();
                    v
                };
                let mut plan = vec![];
                for at in positions {
                    match base.backend {
                        Backend::Sim => plan.push(Fault::SatUnknown { at }),
                        Backend::Ext { .. } => {
                            for kind in CHILD_FAULTS {
                                plan.push(Fault::Child { at, kind });
                            }
                        }
                        Backend::Cadical | Backend::Process { .. } => {}
                    }
                }
                plan
            }
        };
        let mut inter = Digest::default();
        for f in &plan {
            let at = fault_at(f);
            let out = exec_static(&StaticCase { fault: Some(f.clone()), ..base.clone() }, ExecOpts::default());
            let h = out.hub.borrow();
            r.count("injections", 1);
            r.digest.u64(h.digest.0);
            if !h.fault_fired {
                // e.g. a reply fault applied to an UNSAT verdict that still carries a well-formed reply
                r.count("injections_not_manifest", 1);
                continue;
            }
            r.count(&format!("fault_fired_{}", fault_name(f)), 1);
            inter.u64(at);
            inter.str(&fault_name(f));
            // the prefix before call `at` must be identical to the dry run
            let idx = (at - 1) as usize;
            if h.call_digests.get(idx) != dry_digests.get(idx) {
                r.harness_error = Some(format!("fault injection at call {} perturbed the prefix of the run", at));
            }
            match &out.answers[0] {
                Answer::Panicked(_) => {
                    r.count("aborted_as_required", 1);
                }
                Answer::Budget => {
                    r.violations.push(
                        Violation::new("C17", "no-termination-after-fault", format!("query {:?} exceeded the SAT-call budget after {} at call {}", base.queries[0], fault_name(f), at))
                            .at("fault", fault_name(f))
                            .at("sem", base.sem.name()),
                    );
                }
                a => {
                    r.violations.push(
                        Violation::new(
                            "C17",
                            "fault-became-answer",
                            format!(
                                "{:?}-{} {:?}: backend failure `{}` at SAT call {}/{} was converted into the answer {:?}",
                                base.queries[0].kind,
                                base.sem.name(),
                                base.queries[0].args,
                                fault_name(f),
                                at,
                                k_calls,
                                a
                            ),
                        )
                        .at("fault", fault_name(f))
                        .at("backend", if base.backend == Backend::Sim { "trait" } else { "dimacs-parser" })
                        .at("inject", serde_json::to_string(f).unwrap()),
                    );
                }
            }
        }
        let fired: u64 = r.counters.iter().filter(|(k, _)| k.starts_with("fault_fired_")).map(|(_, v)| *v).sum();
        if fired >= 1 {
            let mut d = Digest::default();
            d.str(&serde_json::to_string(&base).unwrap());
            r.nontrivial = Some(d);
            inter.u64(dry_digest.0);
            r.interleaving = Some(inter);
        }
        r
    }
    fn shrink(&self, case: &Value) -> Vec<Value> {
        let case: C17Case = serde_json::from_value(case.clone()).unwrap();
        let mut out: Vec<C17Case> = vec![];
        if case.plan.is_none() {
            // restrict to one failing injection: re-run to find it
            let r = self.exec(&serde_json::to_value(&case).unwrap());
            for v in &r.violations {
                if let Some(inj) = v.site.get("inject") {
                    if let Ok(f) = serde_json::from_str::<Fault>(inj) {
                        out.push(C17Case { base: case.base.clone(), plan: Some(vec![f]), dynamic: case.dynamic.clone() });
                    }
                }
            }
            return out.into_iter().map(|c| serde_json::to_value(c).unwrap()).collect();
        }
        if let Some(d) = &case.dynamic {
            for steps in crate::framework::list_removals(&d.steps) {
                let mut d2 = d.clone();
                d2.steps = steps;
                // positions shift when steps go: enumerate all positions again
                out.push(C17Case { base: case.base.clone(), plan: None, dynamic: Some(d2) });
            }
            return out.into_iter().map(|c| serde_json::to_value(c).unwrap()).collect();
        }
        for b in shrink_static(&case.base) {
            // positions may shift when the case shrinks: try the same injection and "enumerate all" variants
            out.push(C17Case { base: b.clone(), plan: case.plan.clone(), dynamic: None });
        }
        if let Some(plan) = &case.plan {
            if let Some(f) = plan.first() {
                for at in 1..fault_at(f) {
                    let nf = match f {
                        Fault::SatUnknown { .. } => Fault::SatUnknown { at },
                        Fault::Child { kind, .. } => Fault::Child { at, kind: *kind },
                    };
                    out.push(C17Case { base: case.base.clone(), plan: Some(vec![nf]), dynamic: case.dynamic.clone() });
                }
            }
        }
        out.into_iter().map(|c| serde_json::to_value(c).unwrap()).collect()
    }
    fn extra(&self, tier: Tier, seed: u64) -> Option<crate::framework::Extra> {
        Some(cli_part(tier, seed))
    }
    fn rule(&self) -> String {
        "case = (29 in 30) one query (SE/DC/DS, with or without certificate) of one static solver configuration on a generated framework, or (1 in 30) a valid update/query HISTORY on one of the eight dynamic solver kinds with the fault at every (<= 8 sampled) global SAT-call position of the history (parser level: three rotating reply-fault kinds per position): the query during which it fires must unwind, a fault firing inside an update is recorded and not judged; static cases are answered over either SimSat (trait level) or the real BufferedSatSolver reply parser over SimChild. Step 1: fault-free dry run recording the K SAT calls. Step 2: for EVERY call position 1..K (24 seeded positions incl. 1 and K when K > 24) and EVERY fault kind of the backend (trait: Unknown; parser: exit-without-output, status-without-model, model-without-status, truncated, garbage-line, two-status-lines, literal-out-of-range, crash-mid-output) the query is re-run with that fault; it must unwind. Injections whose reply still carries a well-formed verdict (fault on an UNSAT reply) are counted as not manifest and not judged. Non-trivial = at least one injection fired; distinct = distinct base case".into()
    }
    fn assumptions(&self) -> Vec<String> {
        vec![
            "unwinding (panic) is the library's only abort channel: returning normally after a fired fault is the violation, whatever is returned".into(),
            "the run prefix before the injected call is identical to the dry run (checked by digest; a difference is a harness error)".into(),
            "fault enumeration is complete per case over positions x kinds (sampled to 24 positions above 24 calls); cases are sampled".into(),
        ]
    }
    fn real_vs_stub(&self) -> Value {
        json!({"real": ["crustabri::solvers::*", "crustabri::encodings::*", "sat::BufferedSatSolver (DIMACS writer + reply parser, hook H1)", "SolvingResult::unwrap_model sites"], "stub": ["SimSat (trait-level Unknown)", "SimChild (faulty replies)"], "process_level": "see coverage.extra (real binaries + fakesat) when present"})
    }
}

// ------------------------------------------------------------------------------------------ C18

pub struct C18;

#[derive(Clone, Debug, Serialize, Deserialize)]
pub enum C18Case {
    Static(StaticCase),
    /// a history on DynamicPreferredSemanticsSolver: per-query call bound + hard budget
    Dynamic(crate::props::dynamic::DynCase),
}

fn base_count(af: &RefAf, sem: Sem, enc: Enc) -> u64 {
    let complete = af.all_co().len() as u64;
    match (sem, enc) {
        (_, Enc::AuxVarAdm) => af.all_adm().len() as u64,
        (_, Enc::AuxVarCf) | (_, Enc::ExpCf) => af.all_cf().len() as u64,
        (Sem::STG, Enc::Default) => af.all_cf().len() as u64,
        _ => complete,
    }
}

/// The bound stated in the property for one component.
fn bound(af: &RefAf, sem: Sem, enc: Enc) -> u64 {
    let b = base_count(af, sem, enc);
    let pr = af.all_pr().len() as u64;
    let n = af.n as u64;
    match sem {
        Sem::GR => 0,
        Sem::CO | Sem::ST => 2,
        Sem::PR => b + pr + 1,
        Sem::ID => 2 * b + pr + 2,
        Sem::SST | Sem::STG => (n + 2) * b + 3,
    }
}

impl Property for C18 {
    fn id(&self) -> &'static str {
        "C18"
    }
    fn runs(&self, tier: Tier) -> u64 {
        match tier {
            Tier::Quick => 2_000_000,
            Tier::Thorough => 12_000_000,
        }
    }
    fn gen(&self, run_seed: u64, _tier: Tier) -> Value {
        let mut rng = Rng::sub(run_seed, "workload");
        let policy = match rng.weighted(&[40, 30, 25, 5]) {
            0 => Policy::MinTrue,
            1 => Policy::Biased,
            2 => Policy::Uniform,
            _ => Policy::MaxTrue,
        };
        let oracle = OracleCfg { policy, seed: rng.next_u64() >> 16, unused_none: true, nvars_counts_assumed: rng.chance(2, 3) };
        if rng.chance(3, 20) {
            use crate::props::dynamic::{gen_history, DynCase, DynKind};
            let steps = gen_history(&mut rng, DynKind::Preferred, 0);
            return serde_json::to_value(C18Case::Dynamic(DynCase { solver: DynKind::Preferred, factor: 0, string_labels: rng.bool(), oracle, backend: Backend::Sim, steps })).unwrap();
        }
        let mut c = one_query_case(&mut rng, 60, oracle, Backend::Sim);
        // half of the runs go to the most intricate loop: the preferred skeptical search (three exits,
        // blocking clauses under a selector), where non-termination bugs need multi-step ascents
        if rng.bool() && !c.queries[0].args.is_empty() {
            c.sem = Sem::PR;
            c.queries[0].kind = QKind::DS;
            let mut s = RefStore::default();
            for u in &c.fw.ops {
                s.apply(u);
            }
            c.enc = tame_encoder(*rng.pick(&encoders_for(Sem::PR, QKind::DS)), &s);
        }
        // a quarter of the remaining runs query a LIST of 2..4 arguments (repetitions allowed): the
        // bounds hold for every query the API admits ("CO and ST need at most two calls per component")
        if rng.chance(1, 4) && !c.queries[0].args.is_empty() && !(c.sem == Sem::CO && c.queries[0].kind == QKind::DS) {
            let mut s = RefStore::default();
            for u in &c.fw.ops {
                s.apply(u);
            }
            let live: Vec<L> = s.args_by_id().iter().map(|(_, l)| *l).collect();
            let comps = if live.len() <= 14 { s.to_ref().0.components() } else { vec![] };
            if comps.len() >= 2 && rng.bool() {
                // one member of every component (S18h: several components that reject their member)
                let (af, pos_labels, _) = s.to_ref();
                let grounded = af.grounded();
                c.queries[0].args.clear();
                for m in &comps {
                    let members: Vec<usize> = (0..pos_labels.len()).filter(|p| m >> p & 1 == 1).collect();
                    // mostly a member outside the grounded extension: the component may well reject it
                    let outside: Vec<usize> = members.iter().copied().filter(|p| grounded >> p & 1 == 0).collect();
                    let p = if !outside.is_empty() && rng.chance(2, 3) { *rng.pick(&outside) } else { *rng.pick(&members) };
                    c.queries[0].args.push(pos_labels[p]);
                }
                // half of these go to the two-calls-per-component solvers
                if rng.bool() {
                    c.sem = *rng.pick(&[Sem::ST, Sem::CO]);
                    c.queries[0].kind = QKind::DC;
                    c.enc = tame_encoder(*rng.pick(&encoders_for(c.sem, QKind::DC)), &s);
                }
            } else if live.len() >= 2 {
                for _ in 0..rng.range(1, 3) {
                    c.queries[0].args.push(*rng.pick(&live));
                }
            }
        }
        // SAT-based semantics only (GR makes no call); DC-PR is CO, DS-CO is GR: keep them, they are cheap
        if c.sem == Sem::GR {
            c.sem = *rng.pick(&[Sem::PR, Sem::ID, Sem::SST, Sem::STG]);
            c.enc = tame_encoder(*rng.pick(&encoders_for(c.sem, c.queries[0].kind)), &{
                let mut s = RefStore::default();
                for u in &c.fw.ops {
                    s.apply(u);
                }
                s
            });
        }
        serde_json::to_value(C18Case::Static(c)).unwrap()
    }
    fn exec(&self, case: &Value) -> RunResult {
        let case: C18Case = serde_json::from_value(case.clone()).expect("C18 case");
        let case = match case {
            C18Case::Static(c) => c,
            C18Case::Dynamic(d) => {
                let mut r = RunResult::default();
                if d.string_labels {
                    crate::props::dynamic::exec_t("C18", &d, &crate::cases::string_label, &mut r);
                } else {
                    crate::props::dynamic::exec_t("C18", &d, &crate::cases::usize_label, &mut r);
                }
                // only the liveness classes belong to C18; wrong answers are C08's business
                r.violations.retain(|v| v.class == "C18/call-bound" || v.class == "C18/step-budget");
                if r.counters.get("dynamic_preferred_queries_bounded").copied().unwrap_or(0) >= 2 {
                    let mut dg = Digest::default();
                    dg.str(&serde_json::to_string(&d).unwrap());
                    r.nontrivial = Some(dg);
                }
                return r;
            }
        };
        let case = normalise(&case);
        let mut r = RunResult::default();
        if crate::props::statq::too_big_for_refsem(&case) {
            r.skipped = Some("more live arguments than the reference semantics enumerates (shrinker artefact)".into());
            return r;
        }
        if case.queries.len() != 1 {
            r.skipped = Some("needs exactly one query".into());
            return r;
        }
        let q = &case.queries[0];
        let mut store = RefStore::default();
        for u in &case.fw.ops {
            store.apply(u);
        }
        let (af, pos_labels, _) = store.to_ref();
        // effective semantics of the procedure: DC-PR is answered by the CO solver, DS-CO / SE-CO by GR
        let eff = match (case.sem, q.kind) {
            (Sem::PR, QKind::DC) => Sem::CO,
            (Sem::CO, QKind::DS) | (Sem::CO, QKind::SE) => Sem::GR,
            (s, _) => s,
        };
        let comps = af.components();
        let bounds: Vec<u64> = comps.iter().map(|m| bound(&af.restrict(*m).0, eff, case.enc)).collect();
        let mut max_bound = bounds.iter().copied().max().unwrap_or(0);
        let mut sum_bound: u64 = bounds.iter().sum();
        // a list query may be answered on the union of the components of its members, which then
        // plays the role of one component: its bound is the property's formula on that union (for
        // CO / ST: two calls per involved component)
        if q.args.len() > 1 {
            let involved: Vec<u32> = comps.iter().copied().filter(|m| q.args.iter().any(|a| pos_labels.iter().position(|l| l == a).map_or(false, |p| m >> p & 1 == 1))).collect();
            if involved.len() > 1 {
                let union = involved.iter().fold(0u32, |u, m| u | m);
                let merged = match eff {
                    Sem::CO | Sem::ST => 2 * involved.len() as u64,
                    _ => bound(&af.restrict(union).0, eff, case.enc),
                };
                max_bound = max_bound.max(merged);
                // CO / ST: "at most two calls per component" also bounds the total of a list query (S18h);
                // the other semantics may search the union in addition to the components
                if !matches!(eff, Sem::CO | Sem::ST) {
                    sum_bound += merged;
                }
            }
        }
        let budget = 20 * sum_bound.max(max_bound) + 2000;
        let out = exec_static(&case, ExecOpts { record: true, call_budget: Some(budget) });
        let h = out.hub.borrow();
        r.harness_error = h.harness_error.clone();
        r.digest = h.digest;
        r.count("sat_calls", h.calls);
        r.count(&format!("sem_{}", eff.name()), 1);
        r.count(&format!("oracle_policy_{:?}", case.oracle.policy), 1);
        let site = |v: Violation| v.at("sem", eff.name()).at("kind", format!("{:?}", q.kind)).at("enc", format!("{:?}", case.enc));
        match &out.answers[0] {
            Answer::Budget => {
                r.violations.push(site(Violation::new("C18", "step-budget", format!("query {:?} under {} made more than {} SAT calls (sum of per-component bounds {})", q, eff.name(), budget, sum_bound))));
                return r;
            }
            Answer::Panicked(_) => {
                r.skipped = Some("query panicked (reported by C01-C04)".into());
                return r;
            }
            _ => {}
        }
        let mut worst_ratio_num = 0u64;
        for (i, inst) in h.instances.iter().enumerate() {
            if inst.calls as u64 > max_bound {
                r.violations.push(site(Violation::new(
                    "C18",
                    "call-bound",
                    format!(
                        "{:?}-{}: solver instance {} made {} SAT calls; the largest per-component bound is {} (components {:?}, bounds {:?})",
                        q.kind,
                        eff.name(),
                        i,
                        inst.calls,
                        max_bound,
                        comps,
                        bounds
                    ),
                )));
                break;
            }
            worst_ratio_num = worst_ratio_num.max(inst.calls as u64);
            // PR / ID: no candidate set examined twice within one search
            if matches!(eff, Sem::PR | Sem::ID) && !inst.models.is_empty() {
                // a search phase is identified by its selector = the largest variable among the negated assumptions
                let phase = |a: &Vec<i32>| a.iter().filter(|l| **l < 0).map(|l| l.unsigned_abs()).max().unwrap_or(0);
                let first_selector = inst.assumptions.iter().map(phase).filter(|p| *p > 0).min().unwrap_or(0) as usize;
                let mut seen: Vec<(u32, Vec<bool>)> = vec![];
                for (m, a) in inst.models.iter().zip(inst.assumptions.iter()) {
                    let ph = phase(a);
                    if ph == 0 {
                        continue;
                    }
                    let proj: Vec<bool> = m.iter().take(first_selector.saturating_sub(1)).copied().collect();
                    if seen.contains(&(ph, proj.clone())) {
                        r.violations.push(site(Violation::new(
                            "C18",
                            "candidate-twice",
                            format!("{:?}-{}: solver instance {} returned the same candidate set twice within one search (selector {})", q.kind, eff.name(), i, ph),
                        )));
                        break;
                    }
                    seen.push((ph, proj));
                }
            }
        }
        if r.violations.is_empty() && h.calls > sum_bound && !comps.is_empty() {
            r.violations.push(site(Violation::new(
                "C18",
                "call-bound-total",
                format!("{:?}-{}: {} SAT calls in total; the sum of the per-component bounds is {} ({:?})", q.kind, eff.name(), h.calls, sum_bound, bounds),
            )));
        }
        if max_bound > 0 {
            // probe: how close to the bound did an instance get (in percent, max over runs is not summable: bucket it)
            let pct = worst_ratio_num * 100 / max_bound;
            r.count(&format!("worst_instance_calls_pct_of_bound_{:03}", (pct / 10) * 10), 1);
        }
        if h.calls >= 2 && af.n >= 2 {
            let mut d = Digest::default();
            d.str(&serde_json::to_string(&case).unwrap());
            r.nontrivial = Some(d);
            let mut inter = h.result_seq;
            inter.str(&format!("{:?}", af.attacks()));
            r.interleaving = Some(inter);
        }
        r
    }
    fn shrink(&self, case: &Value) -> Vec<Value> {
        let case: C18Case = serde_json::from_value(case.clone()).unwrap();
        match case {
            C18Case::Static(case) => shrink_static(&case).into_iter().filter(|c| c.oracle.policy != Policy::Cadical).map(|c| serde_json::to_value(C18Case::Static(c)).unwrap()).collect(),
            C18Case::Dynamic(d) => (0..d.steps.len())
                .map(|i| {
                    let mut s = d.steps.clone();
                    s.remove(i);
                    serde_json::to_value(C18Case::Dynamic(crate::props::dynamic::DynCase { steps: s, ..d.clone() })).unwrap()
                })
                .collect(),
        }
    }
    fn rule(&self) -> String {
        "case = one query (SE, a single argument, or in about 1 run in 8 a list of 2..6 arguments, half of them one member of every component, judged against the bound of the union of its members' components; for CO/ST the total stays at two calls per component) of a SAT-based static solver configuration on a generated framework (60 % single-component), answered over SimSat under adversarial oracle policies (MinTrue: longest grow-until-UNSAT chains; Biased; Uniform). SimSat attributes calls to solver instances (one per component per search); RefSem supplies |base| (conflict-free / admissible / complete sets according to the encoder) and |PR| per component. Checked post hoc over the event log: calls per instance <= max over components of the stated bound, total calls <= sum of the bounds, and for PR/ID no projected model returned twice within one search; online: hard budget 20*bound+2000 calls (a non-terminating loop becomes a finite replayable failure). Non-trivial = >= 2 arguments and >= 2 SAT calls; distinct = distinct case".into()
    }
    fn assumptions(&self) -> Vec<String> {
        vec![
            "bounds as written in the property: PR <= |base|+|PR|+1, ID <= 2|base|+|PR|+2, SST/STG <= (n+2)|base|+3, CO/ST <= 2 per component; DC-PR is judged as CO and DS-CO as GR (the procedures that answer them)".into(),
            "instance-to-component attribution is not observed: each instance is compared with the largest per-component bound, the total with the sum".into(),
            "15 % of the runs are update/query histories on DynamicPreferredSemanticsSolver: every query must stay within |CO|+|PR|+1 SAT calls on the current framework (one search over the whole framework) and within the hard budget".into(),
        ]
    }
    fn real_vs_stub(&self) -> Value {
        json!({"real": ["crustabri::solvers::{maximal_extension_computer, preferred, ideal, maximal_range, complete, stable}", "crustabri::encodings::*"], "stub": ["SimSat (counting, adversarial decisions)"]})
    }
}

// ---------------------------------------------------------------------------------------------
// C17, command-line part: `crustabri solve --external-sat-solver fakesat` with a reply fault at the
// k-th solver invocation => non-zero exit status, no answer on stdout.

fn cli_part(tier: Tier, seed: u64) -> crate::framework::Extra {
    use crate::cli::{self, answer_lines, StdoutMode};
    use crate::props::c05::{gen_graph, render_instance, PROBLEMS};
    use std::time::Duration;
    let mut x = crate::framework::Extra::default();
    let budget = match tier {
        Tier::Quick => 40u64,
        Tier::Thorough => 1500,
    };
    let kinds = ["exit-without-output", "garbage-line", "model-without-status", "crash-mid-output", "two-status-lines", "truncated"];
    let mut rng = Rng::new(seed ^ 0xC17C11);
    let dir = cli::scratch_dir("c17cli");
    let inst = dir.join("i.af");
    let counter = dir.join("counter");
    let t = Duration::from_secs(60);
    let mut procs = 0u64;
    let mut fired: std::collections::BTreeMap<String, u64> = Default::default();
    let mut aborted = 0u64;
    while procs < budget {
        let (n, atts) = gen_graph(&mut rng, 5);
        std::fs::write(&inst, render_instance(&mut rng, false, n, &atts, &[])).unwrap();
        let problem = loop {
            let p = PROBLEMS[rng.below(PROBLEMS.len())];
            if !p.ends_with("-GR") && p != "SE-CO" && p != "DS-CO" {
                break p;
            }
        };
        let arg = (rng.below(n) + 1).to_string();
        let base = |extra: Vec<String>| -> Vec<String> {
            let mut a: Vec<String> = ["solve", "-f", inst.to_str().unwrap(), "-p", problem, "--logging-level", "off", "--external-sat-solver", cli::fakesat_path().to_str().unwrap()].iter().map(|s| s.to_string()).collect();
            if !problem.starts_with("SE") {
                a.extend(["-a".to_string(), arg.clone()]);
            }
            if extra.iter().any(|e| e == "cert") {
                a.push("--with-certificate".into());
            }
            for o in extra.iter().filter(|e| *e != "cert") {
                a.extend(["--external-sat-solver-opt".to_string(), o.clone()]);
            }
            a
        };
        let cert = rng.bool();
        let mut common = vec![format!("seed={}", rng.below(1000)), format!("counter={}", counter.display())];
        if cert {
            common.push("cert".into());
        }
        let _ = std::fs::remove_file(&counter);
        let dry = cli::run("crustabri", &base(common.clone()), StdoutMode::Pipe, t);
        procs += 1;
        let k_calls: u64 = std::fs::read_to_string(&counter).ok().and_then(|s| s.trim().parse().ok()).unwrap_or(0);
        if dry.code != Some(0) || k_calls == 0 {
            continue; // not this check's business (C05 judges fault-free invocations)
        }
        for k in 1..=k_calls.min(4) {
            let kind = kinds[rng.below(kinds.len())];
            let _ = std::fs::remove_file(&counter);
            let mut opts = common.clone();
            opts.push(format!("fault={}@{}", kind, k));
            let args = base(opts);
            let o = cli::run("crustabri", &args, StdoutMode::Pipe, t);
            procs += 1;
            *fired.entry(kind.to_string()).or_insert(0) += 1;
            let lines = answer_lines(&o.stdout);
            let case = json!({"cli": {"args": args, "instance": String::from_utf8_lossy(&std::fs::read(&inst).unwrap_or_default())}});
            if o.timed_out {
                x.violations.push((case, Violation::new("C17", "hang-after-fault", format!("`crustabri {}` did not terminate", args.join(" "))).at("part", "cli")));
            } else if o.code == Some(0) || !lines.is_empty() {
                x.violations.push((
                    case,
                    Violation::new(
                        "C17",
                        "fault-became-answer",
                        format!("`crustabri {}`: solver reply fault `{}` at invocation {}/{} -> exit {:?}, stdout {:?} (must be a non-zero exit without answer)", args.join(" "), kind, k, k_calls, o.code, String::from_utf8_lossy(&o.stdout)),
                    )
                    .at("part", "cli")
                    .at("fault", kind),
                ));
            } else {
                aborted += 1;
            }
        }
    }
    let _ = std::fs::remove_dir_all(&dir);
    x.evaluations = procs;
    x.value = json!({"cli_part": {"processes": procs, "faults_injected": fired, "aborted_with_nonzero_exit_and_no_answer": aborted,
        "what": "real crustabri binary + fakesat: a verdict-destroying reply fault at the k-th solver invocation (k <= 4) of a fault-free-successful invocation must give a non-zero exit status and an empty stdout"}});
    x
}
