//! C15 — SAT solver objects honour the incremental solving contract (histories on CadicalSolver and
//! on the real BufferedSatSolver over SimChild, in lock-step against a truth table).

use crate::dpll::Policy;
use crate::framework::{Property, RunResult, Tier, Violation};
use crate::prng::{Digest, Rng};
use crate::simchild::ReplyPlan;
use crate::simsat::{self, OracleCfg};
use crate::statics::{factory_for, make_hubs, Backend};
use crustabri::sat::{CadicalSolver, Literal, SatSolver, SolvingResult};
use serde::{Deserialize, Serialize};
use serde_json::{json, Value};
use std::panic::{catch_unwind, AssertUnwindSafe};

#[derive(Clone, Debug, PartialEq, Eq, Serialize, Deserialize)]
pub enum SatOp {
    Add(Vec<i32>),
    Reserve(usize),
    Solve(Vec<i32>),
}

#[derive(Clone, Debug, Serialize, Deserialize)]
pub struct C15Case {
    pub ops: Vec<SatOp>,
    pub oracle: OracleCfg,
    pub plan: ReplyPlan,
    pub vary_plan: bool,
    /// also run the real ExternalSatSolver (exec_solver + a real fakesat process per solve call)
    #[serde(default)]
    pub process: bool,
}

pub struct C15;

const MAXV: usize = 12;

/// RefSat: truth table over the DISTINCT variables that occur (at most 16, whatever their numbers).
fn satisfiable(clauses: &[Vec<i32>], assumptions: &[i32]) -> bool {
    let mut vars: Vec<u32> = clauses.iter().flatten().chain(assumptions.iter()).map(|l| l.unsigned_abs()).collect();
    vars.sort();
    vars.dedup();
    let nv = vars.len();
    assert!(nv <= 16, "RefSat: more than 16 distinct variables");
    let dense = vars.last().map_or(true, |m| *m as usize == nv);
    let ix = |l: i32| -> usize {
        if dense {
            l.unsigned_abs() as usize - 1
        } else {
            vars.binary_search(&l.unsigned_abs()).unwrap()
        }
    };
    let cl: Vec<Vec<(usize, bool)>> = clauses.iter().map(|c| c.iter().map(|l| (ix(*l), *l > 0)).collect()).collect();
    let asm: Vec<(usize, bool)> = assumptions.iter().map(|l| (ix(*l), *l > 0)).collect();
    'rows: for row in 0u32..(1u32 << nv) {
        let val = |(i, pos): (usize, bool)| (row >> i & 1 == 1) == pos;
        for a in &asm {
            if !val(*a) {
                continue 'rows;
            }
        }
        for c in &cl {
            if !c.iter().any(|l| val(*l)) {
                continue 'rows;
            }
        }
        return true;
    }
    false
}

fn lits(v: &[i32]) -> Vec<Literal> {
    v.iter().map(|l| Literal::from(*l as isize)).collect()
}

enum Verdict {
    Sat,
    Unsat,
    Unknown,
    Panic(String),
}

/// A seeded history of SatSolver operations (also used by C16 as its raw-API workload).
pub fn gen_case(run_seed: u64) -> C15Case {
    let mut rng = Rng::sub(run_seed, "workload");
    let nv = rng.range(1, 8);
    let n_ops = rng.range(5, 40);
    let w_add = rng.range(2, 8);
    let w_res = rng.range(0, 2);
    let w_solve = rng.range(1, 5);
    let mut ops = vec![];
    let lit = |rng: &mut Rng, nv: usize| {
        let v = rng.range(1, nv) as i32;
        if rng.bool() {
            v
        } else {
            -v
        }
    };
    for _ in 0..n_ops {
        match rng.weighted(&[w_add, w_res, w_solve]) {
            0 => {
                let len = rng.weighted(&[1, 6, 8, 5, 2]);
                let hi = if rng.chance(1, 8) { (nv + 2).min(MAXV) } else { nv };
                let mut c: Vec<i32> = (0..len).map(|_| lit(&mut rng, hi)).collect();
                if rng.chance(1, 10) && !c.is_empty() {
                    let x = c[0];
                    c.push(-x); // tautology
                }
                ops.push(SatOp::Add(c));
            }
            1 => ops.push(SatOp::Reserve(rng.range(1, MAXV))),
            _ => {
                let k = rng.weighted(&[4, 3, 2, 1]);
                // assumptions, sometimes on never-seen variables
                let hi = if rng.chance(1, 4) { MAXV } else { nv };
                ops.push(SatOp::Solve((0..k).map(|_| lit(&mut rng, hi)).collect()));
                if rng.chance(1, 3) {
                    ops.push(SatOp::Solve(vec![])); // assumptions must not persist
                }
            }
        }
    }
    ops.push(SatOp::Solve(vec![]));
    // 1 history in 400 leaves the small world: variable numbers up to 100 000 (still <= 12 distinct
    // ones, so the truth table stays the reference), clauses of up to 300 literals, or hundreds to
    // tens of thousands of clauses
    if rng.chance(1, 400) {
        match rng.below(3) {
            0 => {
                const IDS: [i32; 24] = [1, 2, 9, 10, 99, 100, 127, 128, 129, 255, 256, 257, 999, 1000, 9999, 10_000, 12_345, 32_767, 32_768, 54_321, 65_535, 65_536, 70_001, 100_000];
                let mut pick: Vec<i32> = IDS.to_vec();
                rng.shuffle(&mut pick);
                pick.truncate(MAXV);
                let map = |l: i32| if l > 0 { pick[l as usize - 1] } else { -pick[(-l) as usize - 1] };
                for op in ops.iter_mut() {
                    match op {
                        SatOp::Add(c) | SatOp::Solve(c) => {
                            for l in c.iter_mut() {
                                *l = map(*l);
                            }
                        }
                        SatOp::Reserve(n) => *n = pick[*n - 1] as usize,
                    }
                }
            }
            1 => {
                // long clauses: one polarity per variable within a clause (no tautology), literals repeated
                for _ in 0..rng.range(1, 4) {
                    let len = *rng.pick(&[17usize, 64, 255, 256, 257, 300]);
                    let pol: Vec<bool> = (0..nv).map(|_| rng.bool()).collect();
                    let c: Vec<i32> = (0..len)
                        .map(|_| {
                            let v = rng.range(1, nv);
                            if pol[v - 1] {
                                v as i32
                            } else {
                                -(v as i32)
                            }
                        })
                        .collect();
                    let at = rng.below(ops.len());
                    ops.insert(at, SatOp::Add(c));
                }
            }
            _ => {
                // many clauses over few variables, few solve calls
                let nvm = nv.min(8);
                let many = *rng.pick(&[255usize, 256, 257, 300, 1000, 5000, 66_000]);
                let mut big = vec![];
                for k in 0..many {
                    let len = rng.range(2, 3);
                    big.push(SatOp::Add((0..len).map(|_| lit(&mut rng, nvm)).collect()));
                    if k == many / 2 {
                        big.push(SatOp::Solve(vec![lit(&mut rng, nvm)]));
                    }
                }
                big.push(SatOp::Solve(vec![]));
                big.push(SatOp::Solve(vec![lit(&mut rng, nvm)]));
                ops = big;
            }
        }
    }
    let mut orng = Rng::sub(run_seed, "oracle");
    let mut oracle = OracleCfg::draw(&mut orng);
    if oracle.policy == Policy::Cadical {
        oracle.policy = Policy::Uniform;
    }
    let mut prng = Rng::sub(run_seed, "delivery");
    C15Case { ops, oracle, plan: ReplyPlan::draw(&mut prng), vary_plan: prng.bool(), process: prng.chance(1, 200) }
}

impl Property for C15 {
    fn id(&self) -> &'static str {
        "C15"
    }
    fn runs(&self, tier: Tier) -> u64 {
        match tier {
            Tier::Quick => 1_200_000,
            Tier::Thorough => 12_000_000,
        }
    }
    fn gen(&self, run_seed: u64, _tier: Tier) -> Value {
        serde_json::to_value(gen_case(run_seed)).unwrap()
    }
    fn exec(&self, case: &Value) -> RunResult {
        let case: C15Case = serde_json::from_value(case.clone()).expect("C15 case");
        let mut r = RunResult::default();
        let backend = Backend::Ext { plan: case.plan, vary_plan: case.vary_plan };
        let (hub, chub) = make_hubs(case.oracle, backend, &None);
        let mut solvers: Vec<(&'static str, Box<dyn SatSolver>)> = vec![
            ("CadicalSolver", Box::<CadicalSolver>::default()),
            ("ExternalSatSolver(BufferedSatSolver over SimChild)", factory_for(backend, &hub, &chub)()),
            ("SimSat", simsat::factory(&hub)()),
        ];
        if case.process {
            solvers.push((
                "ExternalSatSolver(real process)",
                factory_for(Backend::Process { seed: case.oracle.seed % 1000, comment_bytes: (case.oracle.seed % 3 * 40_000) as usize }, &hub, &chub)(),
            ));
            r.count("histories_with_real_external_process", 1);
        }
        let mut clauses: Vec<Vec<i32>> = vec![];
        let mut declared = 0usize;
        let mut n_solve = 0u64;
        let mut n_sat = 0u64;
        let mut inter = Digest::default();
        'ops: for (k, op) in case.ops.iter().enumerate() {
            match op {
                SatOp::Add(c) => {
                    clauses.push(c.clone());
                    for l in c {
                        declared = declared.max(l.unsigned_abs() as usize);
                    }
                    for (_, s) in solvers.iter_mut() {
                        s.add_clause(lits(c));
                    }
                    inter.u64(1);
                }
                SatOp::Reserve(n) => {
                    declared = declared.max(*n);
                    for (_, s) in solvers.iter_mut() {
                        s.reserve(*n);
                    }
                    inter.u64(2);
                }
                SatOp::Solve(assumptions) => {
                    n_solve += 1;
                    let expected = satisfiable(&clauses, assumptions);
                    if expected {
                        n_sat += 1;
                    }
                    inter.u64(3 + expected as u64);
                    for (name, s) in solvers.iter_mut() {
                        if *name == "SimSat" {
                            // the harness' own backend: a disagreement is a harness error, not a finding
                            let res = s.solve_under_assumptions(&lits(assumptions));
                            if matches!(res, SolvingResult::Satisfiable(_)) != expected {
                                r.harness_error = Some(format!("SimSat disagrees with the truth table at op {}", k));
                            }
                            continue;
                        }
                        let site = |v: Violation| v.at("backend", name.split('(').next().unwrap());
                        let res = catch_unwind(AssertUnwindSafe(|| {
                            let res = if assumptions.is_empty() && k % 2 == 0 { s.solve() } else { s.solve_under_assumptions(&lits(assumptions)) };
                            match res {
                                SolvingResult::Satisfiable(m) => {
                                    // every declared variable can be queried
                                    let vals: Vec<Option<bool>> = (1..=declared).map(|v| m.value_of(v)).collect();
                                    let assumed: Vec<(i32, Option<bool>)> = assumptions.iter().map(|l| (*l, m.value_of(l.unsigned_abs() as usize))).collect();
                                    (Verdict::Sat, vals, assumed, s.n_vars())
                                }
                                SolvingResult::Unsatisfiable => (Verdict::Unsat, vec![], vec![], s.n_vars()),
                                SolvingResult::Unknown => (Verdict::Unknown, vec![], vec![], s.n_vars()),
                            }
                        }));
                        let (verdict, vals, assumed, n_vars) = match res {
                            Ok(x) => x,
                            Err(p) => {
                                let t = p.downcast_ref::<String>().cloned().or_else(|| p.downcast_ref::<&str>().map(|s| s.to_string())).unwrap_or_default();
                                (Verdict::Panic(t), vec![], vec![], 0)
                            }
                        };
                        match verdict {
                            Verdict::Panic(t) => {
                                r.violations.push(site(Violation::new("C15", "panic", format!("op {}: solve under {:?} panicked on {}: {}", k, assumptions, name, t))));
                                break 'ops;
                            }
                            Verdict::Unknown => {
                                r.violations.push(site(Violation::new("C15", "undecided-without-fault", format!("op {}: {} reported Unknown under {:?} although the backend replied completely", k, name, assumptions))));
                                break 'ops;
                            }
                            Verdict::Unsat => {
                                if expected {
                                    r.violations.push(site(Violation::new("C15", "unsat-but-satisfiable", format!("op {}: {} reported UNSAT under {:?}; the truth table has a model of the {} clauses", k, name, assumptions, clauses.len()))));
                                    break 'ops;
                                }
                            }
                            Verdict::Sat => {
                                if !expected {
                                    r.violations.push(site(Violation::new("C15", "sat-but-unsatisfiable", format!("op {}: {} reported SAT under {:?}; the truth table has no model", k, name, assumptions))));
                                    break 'ops;
                                }
                                if n_vars < declared {
                                    r.violations.push(site(Violation::new("C15", "n-vars", format!("op {}: {}.n_vars() = {} < declared {}", k, name, n_vars, declared))));
                                    break 'ops;
                                }
                                let val = |l: i32| vals.get(l.unsigned_abs() as usize - 1).copied().flatten().map(|b| b == (l > 0));
                                if let Some(c) = clauses.iter().find(|c| !c.iter().any(|l| val(*l) == Some(true))) {
                                    r.violations.push(site(Violation::new("C15", "model-violates-clause", format!("op {}: model of {} does not satisfy clause {:?}", k, name, c))));
                                    break 'ops;
                                }
                                if let Some((l, v)) = assumed.iter().find(|(l, v)| *v != Some(*l > 0)) {
                                    r.violations.push(site(Violation::new("C15", "model-violates-assumption", format!("op {}: model of {} gives {:?} to assumption {}", k, name, v, l))));
                                    break 'ops;
                                }
                            }
                        }
                    }
                }
            }
        }
        let h = hub.borrow();
        if r.harness_error.is_none() {
            r.harness_error = h.harness_error.clone();
        }
        r.digest = h.digest;
        r.digest.u64(inter.0);
        r.count("solve_calls", n_solve);
        r.count("solve_calls_satisfiable", n_sat);
        r.count("ops", case.ops.len() as u64);
        if let Some(c) = &chub {
            r.count("dimacs_instances_seen_by_child", c.borrow().instances_checked);
        }
        if n_solve >= 2 && clauses.len() >= 2 {
            let mut d = Digest::default();
            d.str(&serde_json::to_string(&case.ops).unwrap());
            r.nontrivial = Some(d);
        }
        let mut i2 = h.result_seq;
        i2.u64(inter.0);
        r.interleaving = Some(i2);
        r
    }
    fn shrink(&self, case: &Value) -> Vec<Value> {
        let case: C15Case = serde_json::from_value(case.clone()).unwrap();
        let mut out = vec![];
        let n = case.ops.len();
        if n > 2 {
            out.push(C15Case { ops: case.ops[..n / 2].to_vec(), ..case.clone() });
        }
        for ops in crate::framework::list_removals(&case.ops) {
            out.push(C15Case { ops, ..case.clone() });
        }
        for i in 0..n.min(80) {
            if let SatOp::Add(c) | SatOp::Solve(c) = &case.ops[i] {
                for j in 0..c.len() {
                    let mut c2 = c.clone();
                    c2.remove(j);
                    let mut ops = case.ops.clone();
                    ops[i] = if matches!(case.ops[i], SatOp::Add(_)) { SatOp::Add(c2) } else { SatOp::Solve(c2) };
                    out.push(C15Case { ops, ..case.clone() });
                }
            }
        }
        if case.process {
            out.push(C15Case { process: false, ..case.clone() });
        }
        if case.plan != ReplyPlan::plain() || case.vary_plan {
            out.push(C15Case { plan: ReplyPlan::plain(), vary_plan: false, ..case.clone() });
        }
        if case.oracle.policy != Policy::MaxTrue {
            out.push(C15Case { oracle: OracleCfg { policy: Policy::MaxTrue, ..case.oracle }, ..case.clone() });
        }
        out.into_iter().map(|c| serde_json::to_value(c).unwrap()).collect()
    }
    fn rule(&self) -> String {
        "case = history of 6..80 operations (1 in 400: variable numbers up to 100 000 with <= 12 distinct ones, clauses of 17..300 literals, or 255..66 000 clauses) {add_clause (empty, unit, tautological, random; sometimes on fresh variables), reserve(k), solve, solve_under_assumptions (0..3 assumptions, sometimes on never-seen variables, followed by an unconstrained solve)} over <= 12 variables applied in lock-step to the real CadicalSolver and to the real BufferedSatSolver over SimChild (its own oracle seed and seeded legal reply layouts), checked against a truth table: verdicts, model vs every clause and assumption, value_of answerable for every declared variable, n_vars >= declared, no persistence of assumptions. Non-trivial = >= 2 solve calls and >= 2 clauses; distinct = distinct operation list".into()
    }
    fn assumptions(&self) -> Vec<String> {
        vec![
            "RefSat = exhaustive truth table (<= 12 variables)".into(),
            "ExternalSatSolver = BufferedSatSolver + exec_solver; this check drives BufferedSatSolver directly through the solving_fn seam (hook H1); exec_solver is covered by C16 part 2 (shuttle seam) and the real-process part".into(),
        ]
    }
    fn real_vs_stub(&self) -> Value {
        json!({"real": ["sat::CadicalSolver + CaDiCaL", "sat::BufferedSatSolver (DIMACS writer, reply parser)"], "stub": ["SimChild (the solver program)", "process/pipes (see C16)"]})
    }
}
