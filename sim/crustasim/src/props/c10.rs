//! C10 — CNF encodings characterise exactly the intended argument sets. The CNF is observed at the
//! seam the property names (SatSolver::add_clause / reserve) by a recording backend; each encoder
//! OBJECT is first driven through a seeded history of encode calls on other frameworks (as the
//! solvers do: one encoder per solver, reused for every component and query).

use crate::cases::{build_usize, gen_framework, shrink_fw, FwSpec, GenParams, Route};
use crate::dpll::{Dpll, Outcome, Policy};
use crate::framework::{Property, RunResult, Tier, Violation};
use crate::prng::{Digest, Rng};
use crate::props::statq::max_defender_product;
use crate::refsem::RefAf;
use crate::refstore::RefStore;
use crustabri::aa::AAFramework;
use crustabri::encodings::{
    aux_var_constraints_encoder, exp_constraints_encoder, new_default_complete_constraints_encoder,
    new_default_conflict_freeness_encoder, ConstraintsEncoder, DefaultStableConstraintsEncoder, HybridCompleteConstraintsEncoder,
};
use crustabri::sat::{Assignment, Literal, SatSolver, SolvingListener, SolvingResult};
use serde::{Deserialize, Serialize};
use serde_json::{json, Value};
use std::panic::{catch_unwind, AssertUnwindSafe};

#[derive(Clone, Copy, Debug, PartialEq, Eq, Hash, Serialize, Deserialize)]
pub enum EncKind {
    AuxVarCf,
    AuxVarAdm,
    AuxVarComplete,
    ExpCf,
    ExpComplete,
    Hybrid,
    DefaultStable,
    /// `encodings::new_default_complete_constraints_encoder()`
    FactoryDefaultComplete,
    /// `encodings::new_default_conflict_freeness_encoder()`
    FactoryDefaultCf,
}

const ENC_KINDS: [EncKind; 9] = [
    EncKind::AuxVarCf,
    EncKind::AuxVarAdm,
    EncKind::AuxVarComplete,
    EncKind::ExpCf,
    EncKind::ExpComplete,
    EncKind::Hybrid,
    EncKind::DefaultStable,
    EncKind::FactoryDefaultComplete,
    EncKind::FactoryDefaultCf,
];

#[derive(Clone, Copy, PartialEq, Eq, Debug)]
enum Base {
    Cf,
    Adm,
    Co,
    St,
}

impl EncKind {
    fn base(self) -> Base {
        match self {
            EncKind::AuxVarCf | EncKind::ExpCf | EncKind::FactoryDefaultCf => Base::Cf,
            EncKind::AuxVarAdm => Base::Adm,
            EncKind::DefaultStable => Base::St,
            _ => Base::Co,
        }
    }
    fn make(self) -> Box<dyn ConstraintsEncoder<usize>> {
        match self {
            EncKind::AuxVarCf => Box::new(aux_var_constraints_encoder::new_for_conflict_freeness()),
            EncKind::AuxVarAdm => Box::new(aux_var_constraints_encoder::new_for_admissibility()),
            EncKind::AuxVarComplete => Box::new(aux_var_constraints_encoder::new_for_complete_semantics()),
            EncKind::ExpCf => Box::new(exp_constraints_encoder::new_for_conflict_freeness()),
            EncKind::ExpComplete => Box::new(exp_constraints_encoder::new_for_complete_semantics()),
            EncKind::Hybrid => Box::<HybridCompleteConstraintsEncoder>::default(),
            EncKind::DefaultStable => Box::<DefaultStableConstraintsEncoder>::default(),
            EncKind::FactoryDefaultComplete => new_default_complete_constraints_encoder(),
            EncKind::FactoryDefaultCf => new_default_conflict_freeness_encoder(),
        }
    }
    fn has_range(self) -> bool {
        self != EncKind::DefaultStable
    }
}

#[derive(Clone, Debug, Serialize, Deserialize)]
pub struct C10Case {
    pub enc: EncKind,
    pub range: bool,
    pub fw: FwSpec,
    /// frameworks encoded before with the same encoder object (framework, with range?)
    pub warmup: Vec<(FwSpec, bool)>,
    /// padded case: the framework has `n_total` arguments with compact ids; the core arguments of
    /// `fw` sit at the ids `positions`, every other argument is an isolated self-attacker (never in
    /// a conflict-free set, never in a range, and its presence rules out stable extensions)
    #[serde(default)]
    pub pad: Option<Pad>,
}

#[derive(Clone, Debug, Serialize, Deserialize)]
pub struct Pad {
    pub n_total: usize,
    pub positions: Vec<usize>,
}

/// Recording backend: the observation point named by the property.
#[derive(Default)]
struct RecSat {
    d: Dpll,
    reserved: usize,
}

impl SatSolver for RecSat {
    fn add_clause(&mut self, cl: Vec<Literal>) {
        let c: Vec<i32> = cl.iter().map(|l| isize::from(*l) as i32).collect();
        self.d.add_clause(&c);
    }
    fn solve(&mut self) -> SolvingResult {
        unreachable!("encoders do not solve")
    }
    fn solve_under_assumptions(&mut self, _a: &[Literal]) -> SolvingResult {
        unreachable!("encoders do not solve")
    }
    fn n_vars(&self) -> usize {
        self.d.max_var.max(self.reserved)
    }
    fn add_listener(&mut self, _l: Box<dyn SolvingListener>) {}
    fn reserve(&mut self, n: usize) {
        self.reserved = self.reserved.max(n);
    }
}

pub struct C10;

fn sigma(af: &RefAf, b: Base, s: u32) -> bool {
    match b {
        Base::Cf => af.conflict_free(s),
        Base::Adm => af.admissible(s),
        Base::Co => af.complete(s),
        Base::St => af.stable(s),
    }
}

fn encode(enc: &dyn ConstraintsEncoder<usize>, af: &AAFramework<usize>, range: bool) -> RecSat {
    let mut rec = RecSat::default();
    if range {
        enc.encode_constraints_and_range(af, &mut rec);
    } else {
        enc.encode_constraints(af, &mut rec);
    }
    rec
}

/// Padded variant: a core of <= 8 arguments among 65..300, the rest isolated self-attackers. The
/// reference is the core's own semantics: the conflict-free / admissible / complete sets of the
/// whole framework are exactly those of the core, the range of a set is its range in the core, and
/// there is no stable set as soon as one filler exists.
fn exec_padded(case: &C10Case) -> RunResult {
    use crustabri::aa::ArgumentSet;
    let mut r = RunResult::default();
    let pad = case.pad.as_ref().unwrap();
    let core = build_usize(&case.fw);
    let (raf, _labels, _ids) = core.store.to_ref();
    let k = raf.n;
    if k != pad.positions.len() || k > 8 || pad.positions.iter().any(|p| *p >= pad.n_total) {
        r.skipped = Some("padding does not fit the core (shrinker artefact)".into());
        return r;
    }
    let n = pad.n_total;
    let labels: Vec<usize> = (0..n).collect();
    let mut af = AAFramework::new_with_argument_set(ArgumentSet::new_with_labels(&labels));
    for (a, b) in raf.attacks() {
        let _ = af.new_attack(&pad.positions[a], &pad.positions[b]);
    }
    let fillers: Vec<usize> = (0..n).filter(|i| !pad.positions.contains(i)).collect();
    for f in &fillers {
        let _ = af.new_attack(f, f);
    }
    let enc = case.enc.make();
    let site = |v: Violation| v.at("enc", format!("{:?}", case.enc)).at("range", case.range).at("padded", true);
    let rec = match catch_unwind(AssertUnwindSafe(|| encode(enc.as_ref(), &af, case.range))) {
        Ok(rec) => rec,
        Err(_) => {
            r.violations.push(site(Violation::new("C10", "panic", format!("{:?}: encoding a padded framework of {} arguments panicked", case.enc, n))));
            return r;
        }
    };
    r.count("padded_cases", 1);
    r.count("cnf_clauses", rec.d.clauses.len() as u64);
    r.digest.u64(rec.d.clauses.len() as u64);
    let lit_of = |id: usize| isize::from(enc.arg_to_lit(af.argument_set().get_argument(&id).unwrap())) as i32;
    let lits: Vec<i32> = (0..n).map(lit_of).collect();
    let first_range = if case.range { enc.first_range_var(n) } else { 0 };
    let mut seen = std::collections::HashMap::new();
    for (i, l) in lits.iter().enumerate() {
        if *l <= 0 {
            r.violations.push(site(Violation::new("C10", "arg-literal", format!("arg_to_lit of argument {} is the negative literal {}", i, l))));
            return r;
        }
        if let Some(j) = seen.insert(*l, i) {
            r.violations.push(site(Violation::new("C10", "arg-literal", format!("arguments {} and {} are mapped to the same variable {}", j, i, l))));
            return r;
        }
        if case.range && (*l as usize) >= first_range && (*l as usize) < first_range + n {
            r.violations.push(site(Violation::new("C10", "arg-literal", format!("variable {} of argument {} lies in the range-variable interval", l, i))));
            return r;
        }
    }
    let base = case.enc.base();
    let mut rng = Rng::new(0xC10 ^ n as u64);
    let fmt = |s: u32| format!("{{{}}}", (0..k).filter(|i| s >> i & 1 == 1).map(|i| format!("#{}", pad.positions[i])).collect::<Vec<_>>().join(","));
    // a filler can never be a member
    for _ in 0..4.min(fillers.len()) {
        let f = fillers[rng.below(fillers.len())];
        let mut steps = 4_000_000u64;
        if let Outcome::Sat(_) = rec.d.solve(&[lits[f]], Policy::MaxTrue, &mut rng, 0, &mut steps) {
            r.violations.push(site(Violation::new("C10", "set-spurious", format!("{:?}: the CNF has a model containing the self-attacking argument #{} ({} arguments)", case.enc, f, n))));
            return r;
        }
    }
    for s in 0..(1u32 << k) {
        let mut assumptions: Vec<i32> = fillers.iter().map(|f| -lits[*f]).collect();
        for i in 0..k {
            assumptions.push(if s >> i & 1 == 1 { lits[pad.positions[i]] } else { -lits[pad.positions[i]] });
        }
        let expected = sigma(&raf, base, s) && !(base == Base::St && !fillers.is_empty());
        let mut steps = 4_000_000u64;
        match rec.d.solve(&assumptions, Policy::MaxTrue, &mut rng, 0, &mut steps) {
            Outcome::Budget => {
                r.skipped = Some("DPLL budget".into());
                return r;
            }
            Outcome::Unsat => {
                if expected {
                    r.violations.push(site(Violation::new("C10", "set-missing", format!("{:?}: {} is a {:?} set of the padded framework ({} arguments, core at {:?}) but the CNF has no model with exactly these arguments", case.enc, fmt(s), base, n, pad.positions))));
                    return r;
                }
            }
            Outcome::Sat(_) => {
                if !expected {
                    r.violations.push(site(Violation::new("C10", "set-spurious", format!("{:?}: the CNF of the padded framework ({} arguments, core at {:?}) has a model whose arguments are {}, which is not a {:?} set", case.enc, n, pad.positions, fmt(s), base))));
                    return r;
                }
                if case.range {
                    let range = raf.range(s);
                    // (a) range(S) itself is reachable, with every filler's range variable false
                    let mut asm = assumptions.clone();
                    for i in 0..k {
                        let v = (first_range + pad.positions[i]) as i32;
                        asm.push(if range >> i & 1 == 1 { v } else { -v });
                    }
                    for f in fillers.iter().take(8) {
                        asm.push(-((first_range + *f) as i32));
                    }
                    let mut steps = 4_000_000u64;
                    if let Outcome::Unsat = rec.d.solve(&asm, Policy::MaxTrue, &mut rng, 0, &mut steps) {
                        r.violations.push(site(Violation::new("C10", "range-not-reachable", format!("{:?}: no model of {} has its range variables equal to its range (padded, {} arguments)", case.enc, fmt(s), n))));
                        return r;
                    }
                    // (b) no range variable true outside the range: core arguments and a sample of fillers
                    let mut outside: Vec<usize> = (0..k).filter(|i| range >> i & 1 == 0).map(|i| pad.positions[i]).collect();
                    for _ in 0..3.min(fillers.len()) {
                        outside.push(fillers[rng.below(fillers.len())]);
                    }
                    for o in outside {
                        let mut asm = assumptions.clone();
                        asm.push((first_range + o) as i32);
                        let mut steps = 4_000_000u64;
                        if let Outcome::Sat(_) = rec.d.solve(&asm, Policy::MaxTrue, &mut rng, 0, &mut steps) {
                            r.violations.push(site(Violation::new("C10", "range-spurious", format!("{:?}: with arguments {} the range variable of #{} can be true although it is outside the range (padded, {} arguments)", case.enc, fmt(s), o, n))));
                            return r;
                        }
                    }
                }
            }
        }
    }
    r.count(&format!("enc_{:?}_padded", case.enc), 1);
    let mut d = Digest::default();
    d.str(&serde_json::to_string(case).unwrap());
    r.nontrivial = Some(d);
    r.interleaving = Some(r.digest);
    r
}

impl Property for C10 {
    fn id(&self) -> &'static str {
        "C10"
    }
    fn runs(&self, tier: Tier) -> u64 {
        match tier {
            Tier::Quick => 4_000_000,
            Tier::Thorough => 30_000_000,
        }
    }
    fn gen(&self, run_seed: u64, _tier: Tier) -> Value {
        let mut rng = Rng::sub(run_seed, "workload");
        let enc = *rng.pick(&ENC_KINDS);
        // 1 case in 300 goes up to 11 arguments (an argument with 9 or 10 distinct attackers needs them)
        let big = rng.chance(1, 300);
        let params = GenParams { max_n: if big { 11 } else { 8 }, allow_removals: false, single_component_pct: if big { 85 } else { 50 } };
        let draw = |rng: &mut Rng| loop {
            let mut f = gen_framework(rng, &params);
            if f.route == Route::ApiString || f.route == Route::ApxText {
                f.route = if rng.bool() { Route::ApiUsize } else { Route::IccmaText };
            }
            let mut s = RefStore::default();
            for u in &f.ops {
                s.apply(u);
            }
            if matches!(enc, EncKind::ExpComplete) && max_defender_product(&s) > 2000 {
                continue;
            }
            if big && s.live.len() < 9 {
                continue;
            }
            return f;
        };
        let fw = draw(&mut rng);
        let range = enc.has_range() && rng.bool();
        let warmup = (0..rng.weighted(&[3, 4, 3])).map(|_| (draw(&mut rng), enc.has_range() && rng.bool())).collect();
        // 1 case in 2000: the same core padded to 65..300 arguments (large ids, ids equal modulo 64 or
        // 256, long per-encoder tables) — checked on the subsets of the core
        let pad = if !big && rng.chance(1, 2000) {
            let mut st = RefStore::default();
            for u in &fw.ops {
                st.apply(u);
            }
            let k = st.live.len();
            let n_total = *rng.pick(&[65usize, 66, 70, 100, 128, 129, 200, 257, 300]);
            let mut positions: Vec<usize> = vec![];
            while positions.len() < k {
                let p = if !positions.is_empty() && rng.chance(1, 2) {
                    // congruent to an earlier position modulo 64
                    (positions[rng.below(positions.len())] + 64 * rng.range(1, 4)) % n_total
                } else {
                    rng.below(n_total)
                };
                if !positions.contains(&p) {
                    positions.push(p);
                }
            }
            if k >= 1 && k <= 8 { Some(Pad { n_total, positions }) } else { None }
        } else {
            None
        };
        serde_json::to_value(C10Case { enc, range, fw, warmup, pad }).unwrap()
    }
    fn exec(&self, case: &Value) -> RunResult {
        let case: C10Case = serde_json::from_value(case.clone()).expect("C10 case");
        if case.pad.is_some() {
            return exec_padded(&case);
        }
        let mut r = RunResult::default();
        let enc = case.enc.make();
        // encoder-object history
        for (w, wr) in &case.warmup {
            let b = build_usize(w);
            let ok = catch_unwind(AssertUnwindSafe(|| {
                let _ = encode(enc.as_ref(), &b.af, *wr);
            }));
            if ok.is_err() {
                r.violations.push(Violation::new("C10", "panic", format!("{:?}: encoding a warm-up framework panicked", case.enc)).at("enc", format!("{:?}", case.enc)));
                return r;
            }
            r.count("encoder_reuse_calls", 1);
        }
        let built = build_usize(&case.fw);
        let (raf, labels, ids) = built.store.to_ref();
        let n = raf.n;
        if ids.iter().enumerate().any(|(k, id)| k != *id) {
            r.harness_error = Some("C10 needs compact ids".into());
            return r;
        }
        let site = |v: Violation| v.at("enc", format!("{:?}", case.enc)).at("range", case.range);
        let rec = match catch_unwind(AssertUnwindSafe(|| encode(enc.as_ref(), &built.af, case.range))) {
            Ok(rec) => rec,
            Err(_) => {
                r.violations.push(site(Violation::new("C10", "panic", format!("{:?}: encode_constraints{} panicked", case.enc, if case.range { "_and_range" } else { "" }))));
                return r;
            }
        };
        r.count("cnf_clauses", rec.d.clauses.len() as u64);
        if case.enc == EncKind::Hybrid {
            r.count(if max_defender_product(&built.store) >= 32 { "probe_hybrid_aux_var_path" } else { "probe_hybrid_exp_path_only" }, 1);
        }
        r.count(&format!("enc_{:?}{}", case.enc, if case.range { "_range" } else { "" }), 1);
        for c in &rec.d.clauses {
            for l in c {
                r.digest.u64(*l as i64 as u64);
            }
            r.digest.u64(0);
        }
        // argument literals: distinct, disjoint from the range variables
        let arg_lits: Vec<i32> = (0..n)
            .map(|k| isize::from(enc.arg_to_lit(built.af.argument_set().get_argument(&built.lab[&labels[k]]).unwrap())) as i32)
            .collect();
        let first_range = if case.range { enc.first_range_var(n) } else { 0 };
        for i in 0..n {
            if arg_lits[i] <= 0 {
                r.violations.push(site(Violation::new("C10", "arg-literal", format!("arg_to_lit of argument {} is the negative literal {}", i, arg_lits[i]))));
                return r;
            }
            for j in 0..i {
                if arg_lits[i].abs() == arg_lits[j].abs() {
                    r.violations.push(site(Violation::new("C10", "arg-literal", format!("arguments {} and {} are mapped to the same variable {}", j, i, arg_lits[i]))));
                    return r;
                }
            }
            if case.range && (arg_lits[i] as usize) >= first_range && (arg_lits[i] as usize) < first_range + n {
                r.violations.push(site(Violation::new("C10", "arg-literal", format!("variable {} of argument {} lies in the range-variable interval [{}, {})", arg_lits[i], i, first_range, first_range + n))));
                return r;
            }
        }
        let base = case.enc.base();
        let mut rng = Rng::new(0xC10);
        let mut n_sets = 0u64;
        let fmt = |s: u32| format!("{{{}}}", (0..n).filter(|i| s >> i & 1 == 1).map(|i| format!("a{}", labels[i])).collect::<Vec<_>>().join(","));
        for s in 0..(1u32 << n) {
            let assumptions: Vec<i32> = (0..n).map(|i| if s >> i & 1 == 1 { arg_lits[i] } else { -arg_lits[i] }).collect();
            let mut steps = 2_000_000u64;
            let out = rec.d.solve(&assumptions, Policy::MaxTrue, &mut rng, 0, &mut steps);
            let expected = sigma(&raf, base, s);
            match out {
                Outcome::Budget => {
                    r.skipped = Some("DPLL budget".into());
                    return r;
                }
                Outcome::Unsat => {
                    if expected {
                        r.violations.push(site(Violation::new("C10", "set-missing", format!("{:?}: {} is a {:?} set of the framework but the CNF has no model with exactly these arguments", case.enc, fmt(s), base))));
                        return r;
                    }
                }
                Outcome::Sat(m) => {
                    if !expected {
                        r.violations.push(site(Violation::new("C10", "set-spurious", format!("{:?}: the CNF has a model whose arguments are {}, which is not a {:?} set", case.enc, fmt(s), base))));
                        return r;
                    }
                    n_sets += 1;
                    // translate the model back
                    let nv = rec.n_vars();
                    let model: Vec<Option<bool>> = (1..=nv).map(|v| if v < m.len() { match m[v] { 1 => Some(true), -1 => Some(false), _ => None } } else { None }).collect();
                    let a = Assignment::verif_new(model);
                    let ext = enc.assignment_to_extension(&a, &built.af);
                    let mut back = 0u32;
                    let mut dup = false;
                    for x in &ext {
                        let p = ids.iter().position(|id| *id == x.id()).unwrap();
                        if back >> p & 1 == 1 {
                            dup = true;
                        }
                        back |= 1 << p;
                    }
                    if back != s || dup {
                        r.violations.push(site(Violation::new("C10", "translation", format!("{:?}: assignment_to_extension of a model for {} returned {}{}", case.enc, fmt(s), fmt(back), if dup { " with duplicates" } else { "" }))));
                        return r;
                    }
                    if case.range {
                        let range = raf.range(s);
                        // (a) a model whose range variables equal range(S) exists
                        let mut asm = assumptions.clone();
                        for i in 0..n {
                            let v = (first_range + i) as i32;
                            asm.push(if range >> i & 1 == 1 { v } else { -v });
                        }
                        let mut steps = 2_000_000u64;
                        if let Outcome::Unsat = rec.d.solve(&asm, Policy::MaxTrue, &mut rng, 0, &mut steps) {
                            r.violations.push(site(Violation::new("C10", "range-not-reachable", format!("{:?}: no model of {} has its range variables equal to its range {}", case.enc, fmt(s), fmt(range)))));
                            return r;
                        }
                        // (b) no range variable can be true outside range(S)
                        for i in 0..n {
                            if range >> i & 1 == 0 {
                                let mut asm = assumptions.clone();
                                asm.push((first_range + i) as i32);
                                let mut steps = 2_000_000u64;
                                if let Outcome::Sat(_) = rec.d.solve(&asm, Policy::MaxTrue, &mut rng, 0, &mut steps) {
                                    r.violations.push(site(Violation::new("C10", "range-spurious", format!("{:?}: with arguments {} the range variable of a{} can be true although it is outside the range {}", case.enc, fmt(s), labels[i], fmt(range)))));
                                    return r;
                                }
                            }
                        }
                    }
                }
            }
        }
        r.count("subsets_decided", 1u64 << n);
        r.count("sigma_sets", n_sets);
        if n >= 2 && !raf.attacks().is_empty() {
            let mut d = Digest::default();
            d.str(&serde_json::to_string(&case).unwrap());
            r.nontrivial = Some(d);
            let mut i = Digest::default();
            i.str(&format!("{:?}{}{:?}", case.enc, case.range, raf.attacks()));
            r.interleaving = Some(i);
        }
        r
    }
    fn shrink(&self, case: &Value) -> Vec<Value> {
        let case: C10Case = serde_json::from_value(case.clone()).unwrap();
        let mut out = vec![];
        if !case.warmup.is_empty() {
            out.push(C10Case { warmup: vec![], ..case.clone() });
            for i in 0..case.warmup.len() {
                let mut w = case.warmup.clone();
                w.remove(i);
                out.push(C10Case { warmup: w, ..case.clone() });
            }
        }
        for fw in shrink_fw(&case.fw) {
            if fw.route == Route::ApiUsize || fw.route == Route::IccmaText {
                out.push(C10Case { fw, ..case.clone() });
            }
        }
        if case.range {
            out.push(C10Case { range: false, ..case.clone() });
        }
        out.into_iter().map(|c| serde_json::to_value(c).unwrap()).collect()
    }
    fn rule(&self) -> String {
        "case = encoder (aux_var cf/adm/complete, exp cf/complete, hybrid on both sides of its threshold via funnel shapes, default stable, and the two public factory functions of encodings/mod.rs judged by their documented semantics) x {plain, with range} x a framework with compact ids (<= 8 arguments, API or ICCMA route) x 0..2 warm-up frameworks encoded earlier with the SAME encoder object. The clauses are recorded at SatSolver::add_clause/reserve; for every subset S of the arguments: CNF + (argument variables = S) is satisfiable iff S is a sigma-set (both directions), assignment_to_extension(model) = S; with range: range(S) is reachable and no range variable outside range(S) can be true; arg_to_lit is injective, positive and outside the range interval. Non-trivial = >= 2 arguments and >= 1 attack; distinct = distinct case".into()
    }
    fn assumptions(&self) -> Vec<String> {
        vec![
            "fit with the technique family is weak and stated as such in DESIGN.md: the CNF is a function of (framework, encoder); what the simulator contributes is the recording backend at the named seam and the encoder-object reuse history".into(),
            "per-case decision is exhaustive over the 2^n subsets; cases are sampled".into(),
        ]
    }
    fn real_vs_stub(&self) -> Value {
        json!({"real": ["crustabri::encodings::* (all encoders and both factory functions)", "aa::AAFramework, io::Iccma23Reader on the text route"], "stub": ["recording SatSolver + seeded DPLL as the model enumerator"]})
    }
}
