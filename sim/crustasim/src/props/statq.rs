//! C01, C02, C03, C04, C07 — static solvers under the simulated SAT oracle, checked against RefSem.

use crate::cases::{gen_framework, shrink_fw, GenParams};
use crate::dpll::Policy;
use crate::framework::{Property, RunResult, Tier, Violation};
use crate::prng::{Digest, Rng};
use crate::refsem::{Sem, ALL_SEMS};
use crate::refstore::{RefStore, L};
use crate::simsat::OracleCfg;
use crate::statics::{check_answer, encoders_for, exec_static, Backend, Enc, ExecOpts, QKind, StaticCase, Truth, Q};
use serde_json::{json, Value};

#[derive(Clone, Copy, PartialEq, Eq)]
pub enum Mode {
    C01,
    C02,
    C03,
    C04,
    C07,
}

pub struct StatQ(pub Mode);

fn final_store(case: &StaticCase) -> RefStore {
    let mut s = RefStore::default();
    for u in &case.fw.ops {
        s.apply(u);
    }
    s
}

/// The reference semantics enumerates all subsets: a case with more live arguments than any
/// generator draws can only come from the shrinker (e.g. after it dropped the removals of a heavily
/// over-built framework) and is skipped instead of being evaluated.
pub const MAX_LIVE_FOR_REFSEM: usize = 14;
pub fn too_big_for_refsem(case: &StaticCase) -> bool {
    final_store(case).live.len() > MAX_LIVE_FOR_REFSEM
}

/// Drops queries whose arguments are not live (after shrinking) and returns the normalised case.
pub fn normalise(case: &StaticCase) -> StaticCase {
    let s = final_store(case);
    let mut c = case.clone();
    c.queries.retain(|q| q.args.iter().all(|a| s.live.contains_key(a)) && (q.kind == QKind::SE || !q.args.is_empty()));
    c
}

pub fn spread(store: &RefStore, args: &[L]) -> &'static str {
    if args.len() < 2 {
        return "single";
    }
    let (af, labels, _) = store.to_ref();
    let comps = af.components();
    let comp_of = |l: &L| {
        let p = labels.iter().position(|x| x == l).unwrap();
        comps.iter().position(|c| c >> p & 1 == 1).unwrap()
    };
    let first = comp_of(&args[0]);
    if args.iter().all(|a| comp_of(a) == first) {
        "same-component"
    } else {
        "different-components"
    }
}

/// Executes a static case and checks every answer against RefSem.
pub fn eval_static(prop: &str, case: &StaticCase, r: &mut RunResult) {
    if too_big_for_refsem(case) {
        r.skipped = Some("more live arguments than the reference semantics enumerates (shrinker artefact)".into());
        return;
    }
    let case = normalise(case);
    let out = exec_static(&case, ExecOpts::default());
    let mut truth = Truth::of(&out.store);
    for (q, a) in case.queries.iter().zip(out.answers.iter()) {
        if let Some((check, msg)) = check_answer(&mut truth, case.sem, q, a) {
            let v = Violation::new(prop, &check, format!("{} [enc {:?}, oracle {:?}]", msg, case.enc, case.oracle.policy))
                .at("sem", case.sem.name())
                .at("kind", format!("{:?}", q.kind))
                .at("cert", q.cert)
                .at("args", spread(&out.store, &q.args))
                .at("enc", format!("{:?}", case.enc));
            r.violations.push(v);
            break;
        }
    }
    if let Some(m) = &out.framework_modified {
        r.violations.push(Violation::new(prop, "framework-modified", m.clone()).at("sem", case.sem.name()));
    }
    let h = out.hub.borrow();
    r.harness_error = h.harness_error.clone();
    r.digest = h.digest;
    for a in &out.answers {
        r.digest.str(&format!("{:?}", a));
    }
    r.count("sat_calls", h.calls);
    r.count("sat_results_sat", h.sat_calls);
    r.count("sat_results_unsat", h.unsat_calls);
    r.count("solver_instances", h.instances.len() as u64);
    r.count("queries", case.queries.len() as u64);
    r.count("dpll_steps", h.steps);
    r.count("dpll_fallback_to_cadical", h.dpll_fallbacks);
    r.count(&format!("oracle_policy_{:?}", case.oracle.policy), 1);
    r.count(&format!("sem_{}", case.sem.name()), 1);
    r.count(&format!("enc_{:?}", case.enc), 1);
    r.count(&format!("route_{:?}", case.fw.route), 1);
    let (af, _, ids) = out.store.to_ref();
    if ids.iter().enumerate().any(|(k, id)| k != *id) {
        r.count("frameworks_with_sparse_ids", 1);
    }
    if af.components().len() > 1 {
        r.count("frameworks_with_several_components", 1);
    }
    if case.enc == Enc::Hybrid {
        // probe: which side of the hybrid encoder's switching threshold (product of defender sets >= 32)
        r.count(if max_defender_product(&out.store) >= 32 { "probe_hybrid_aux_var_path" } else { "probe_hybrid_exp_path_only" }, 1);
    }
    let n_att = af.attacks().len();
    if af.n >= 2 && n_att >= 1 && (h.calls >= 1 || matches!(case.sem, Sem::GR) || (case.sem == Sem::CO && case.queries.iter().all(|q| q.kind != QKind::DC))) {
        let mut d = Digest::default();
        d.u64(af.n as u64);
        for (a, b) in af.attacks() {
            d.u64((a * 64 + b) as u64);
        }
        d.str(case.sem.name());
        d.str(&format!("{:?}{:?}", case.enc, case.queries));
        d.str(&format!("{:?}", case.oracle));
        r.nontrivial = Some(d);
    }
    let mut inter = h.result_seq;
    inter.u64(af.n as u64);
    for (a, b) in af.attacks() {
        inter.u64((a * 64 + b) as u64);
    }
    inter.str(case.sem.name());
    r.interleaving = Some(inter);
}

/// The exp encoding enumerates the cartesian product of the defender sets of each argument: the
/// workload keeps that product small (the blow-up itself is by design, not a defect).
pub fn max_defender_product(store: &RefStore) -> u64 {
    // the exp encoder expands, per argument, the product of its attackers' defender lists; the lists
    // hold one ENTRY per declaration, so repeated attack lines count with their multiplicity
    let mult = |x: usize, y: usize| 1 + store.repeats.get(&(x, y)).copied().unwrap_or(0) as u64;
    let mut worst = 1u64;
    for (_, a) in store.live.iter() {
        let mut p = 1u64;
        for (b, t) in store.attacks.iter() {
            if t != a {
                continue;
            }
            let defenders: u64 = store.attacks.iter().filter(|(_, t2)| t2 == b).map(|(c, _)| mult(*c, *b)).sum();
            for _ in 0..mult(*b, *a) {
                p = p.saturating_mul(defenders.max(1));
            }
        }
        worst = worst.max(p);
    }
    worst
}

pub fn tame_encoder(enc: Enc, store: &RefStore) -> Enc {
    if enc == Enc::ExpComplete && max_defender_product(store) > 2000 {
        Enc::Hybrid
    } else {
        enc
    }
}

pub fn gen_static(rng: &mut Rng, mode: Mode) -> StaticCase {
    gen_static_n(rng, mode, 9)
}

pub fn gen_static_n(rng: &mut Rng, mode: Mode, max_n: usize) -> StaticCase {
    let fw = gen_framework(rng, &GenParams { max_n, allow_removals: true, single_component_pct: 0 });
    let mut store = RefStore::default();
    for u in &fw.ops {
        store.apply(u);
    }
    let live: Vec<L> = store.args_by_id().iter().map(|(_, l)| *l).collect();
    let sem = *rng.pick(&ALL_SEMS);
    let mut queries = vec![];
    let kind_for_enc;
    match mode {
        Mode::C01 => {
            queries.push(Q { kind: QKind::SE, args: vec![], cert: false });
            kind_for_enc = QKind::SE;
        }
        Mode::C02 => {
            for l in &live {
                queries.push(Q { kind: QKind::DC, args: vec![*l], cert: false });
            }
            kind_for_enc = QKind::DC;
        }
        Mode::C03 => {
            for l in &live {
                queries.push(Q { kind: QKind::DS, args: vec![*l], cert: false });
            }
            kind_for_enc = QKind::DS;
        }
        Mode::C04 => {
            let kind = if rng.bool() { QKind::DC } else { QKind::DS };
            for l in &live {
                queries.push(Q { kind, args: vec![*l], cert: true });
            }
            kind_for_enc = kind;
        }
        Mode::C07 => {
            let kind = if rng.bool() { QKind::DC } else { QKind::DS };
            if !live.is_empty() {
                for _ in 0..rng.range(1, 4) {
                    let k = rng.weighted(&[1, 5, 4]) + 1;
                    let args: Vec<L> = (0..k).map(|_| *rng.pick(&live)).collect();
                    let cert = rng.bool();
                    queries.push(Q { kind, args: args.clone(), cert });
                    if rng.chance(1, 3) {
                        queries.push(Q { kind, args, cert: !cert });
                    }
                }
            }
            kind_for_enc = kind;
        }
    }
    if mode != Mode::C01 && rng.chance(1, 4) {
        rng.shuffle(&mut queries);
    }
    let enc = tame_encoder(*rng.pick(&encoders_for(sem, kind_for_enc)), &store);
    StaticCase {
        fw,
        sem,
        enc,
        oracle: OracleCfg::draw(rng),
        backend: Backend::Sim,
        queries,
        reuse_objects: rng.bool(),
        fault: None,
    }
}

pub fn shrink_static(case: &StaticCase) -> Vec<StaticCase> {
    let mut out = vec![];
    // fewer queries first
    if case.queries.len() > 1 {
        for i in 0..case.queries.len() {
            out.push(StaticCase { queries: vec![case.queries[i].clone()], ..case.clone() });
        }
    }
    for q in 0..case.queries.len() {
        if case.queries[q].args.len() > 1 {
            for i in 0..case.queries[q].args.len() {
                let mut c = case.clone();
                c.queries[q].args.remove(i);
                out.push(c);
            }
        }
    }
    for fw in shrink_fw(&case.fw) {
        out.push(normalise(&StaticCase { fw, ..case.clone() }));
    }
    if case.oracle.policy != Policy::Cadical {
        out.push(StaticCase { oracle: OracleCfg::cadical(), ..case.clone() });
    }
    if case.oracle.policy != Policy::MaxTrue && case.oracle.policy != Policy::Cadical {
        out.push(StaticCase { oracle: OracleCfg { policy: Policy::MaxTrue, ..case.oracle }, ..case.clone() });
    }
    if case.oracle.policy != Policy::MinTrue && case.oracle.policy != Policy::Cadical {
        out.push(StaticCase { oracle: OracleCfg { policy: Policy::MinTrue, ..case.oracle }, ..case.clone() });
    }
    if case.oracle.seed > 3 {
        for s in 0..3 {
            out.push(StaticCase { oracle: OracleCfg { seed: s, ..case.oracle }, ..case.clone() });
        }
    }
    if !case.oracle.unused_none {
        out.push(StaticCase { oracle: OracleCfg { unused_none: true, ..case.oracle }, ..case.clone() });
    }
    if !case.oracle.nvars_counts_assumed {
        out.push(StaticCase { oracle: OracleCfg { nvars_counts_assumed: true, ..case.oracle }, ..case.clone() });
    }
    if case.enc != Enc::Default {
        out.push(StaticCase { enc: Enc::Default, ..case.clone() });
    }
    if case.reuse_objects {
        out.push(StaticCase { reuse_objects: false, ..case.clone() });
    }
    out
}

impl Property for StatQ {
    fn id(&self) -> &'static str {
        match self.0 {
            Mode::C01 => "C01",
            Mode::C02 => "C02",
            Mode::C03 => "C03",
            Mode::C04 => "C04",
            Mode::C07 => "C07",
        }
    }
    fn runs(&self, tier: Tier) -> u64 {
        match (tier, self.0) {
            (Tier::Quick, Mode::C01) | (Tier::Quick, Mode::C07) => 2_000_000,
            (Tier::Quick, Mode::C04) => 1_200_000,
            (Tier::Quick, _) => 1_500_000,
            (Tier::Thorough, Mode::C01) | (Tier::Thorough, Mode::C07) => 20_000_000,
            (Tier::Thorough, _) => 15_000_000,
        }
    }
    fn gen(&self, run_seed: u64, tier: Tier) -> Value {
        let mut rng = Rng::sub(run_seed, "workload");
        // thorough tier: 1/8 of the frameworks may have up to 12 arguments (RefSem still exhaustive)
        let max_n = if tier == Tier::Thorough && run_seed % 8 == 0 { 12 } else { 9 };
        serde_json::to_value(gen_static_n(&mut rng, self.0, max_n)).unwrap()
    }
    fn exec(&self, case: &Value) -> RunResult {
        let case: StaticCase = serde_json::from_value(case.clone()).expect("static case");
        let mut r = RunResult::default();
        eval_static(self.id(), &case, &mut r);
        r
    }
    fn shrink(&self, case: &Value) -> Vec<Value> {
        let case: StaticCase = serde_json::from_value(case.clone()).unwrap();
        shrink_static(&case).into_iter().map(|c| serde_json::to_value(c).unwrap()).collect()
    }
    fn rule(&self) -> String {
        let what = match self.0 {
            Mode::C01 => "one compute_one_extension call",
            Mode::C02 => "is_credulously_accepted for every argument",
            Mode::C03 => "is_skeptically_accepted for every argument",
            Mode::C04 => "the *_with_certificate method (DC or DS) for every argument",
            Mode::C07 => "1..4 are_*_accepted[_with_certificate] calls on lists of 1..3 arguments (repetitions allowed, any component)",
        };
        format!("case = framework as an operation list (0..9 arguments, 1..3 components, shape templates incl. hybrid-threshold funnels, routes: API usize/String, ICCMA text with duplicated attack lines, Aspartix text, over-build-then-remove for sparse ids) x semantics x selectable encoder x oracle configuration (policy, seed, None-for-unused, n_vars convention) x (one solver object | fresh objects); workload = {}. Every answer is checked against RefSem. Non-trivial = >= 2 arguments, >= 1 attack and (for SAT-based semantics) >= 1 SAT call; distinct = distinct (attack graph, semantics, encoder, queries, oracle configuration)", what)
    }
    fn assumptions(&self) -> Vec<String> {
        vec![
            "RefSem (brute force over bitmasks, cross-checked against a labelling-based twin in `selftest`) is the specification of the seven semantics".into(),
            "SimSat returns only genuine models / genuine UNSAT verdicts (every verdict cross-checked against the real CaDiCaL; disagreement = harness error, exit 2)".into(),
            "sampling, not exhaustive: frameworks of at most 9 arguments".into(),
        ]
    }
    fn real_vs_stub(&self) -> Value {
        json!({"real": ["crustabri::solvers::*", "crustabri::encodings::*", "crustabri::aa::*", "utils::{ConnectedComponentsComputer, grounded_extension}", "io readers on the text routes", "sat::CadicalSolver (policy Cadical and as UNSAT cross-check)"], "stub": ["SAT backend decisions: SimSat (seeded DPLL behind the SatSolver trait)"]})
    }
}
