//! crustasim — deterministic simulation with fault injection for crustabri.
mod cases;
mod cli;
mod dpll;
mod framework;
mod prng;
#[cfg(feature = "proc")]
mod procsim;
mod props;
mod refsem;
mod refstore;
mod selftest;
mod simchild;
mod simsat;
mod statics;
mod streams;
mod supervisor;

use framework::{BatchCfg, Tier};

fn usage() -> ! {
    eprintln!("usage: crustasim run <ID> [--tier quick|thorough] [--runs N] [--seed S] [--workers W] [--no-evidence]\n       crustasim replay <file>\n       crustasim digests <ID> [--runs N] [--seed S] [--workers W]\n       crustasim selftest");
    std::process::exit(2)
}

fn main() {
    // anyhow captures a backtrace (behind a global lock) for every Err when RUST_BACKTRACE is
    // set; errors are part of the simulated workloads, so switch library backtraces off.
    std::env::set_var("RUST_LIB_BACKTRACE", "0");
    if std::env::var_os("VERIF_VERBOSE").is_none() {
        std::panic::set_hook(Box::new(|_| {}));
    }
    let args: Vec<String> = std::env::args().collect();
    if args.len() < 2 {
        usage();
    }
    let opt = |name: &str| -> Option<String> { args.iter().position(|a| a == name).and_then(|i| args.get(i + 1).cloned()) };
    let seed: u64 = opt("--seed")
        .or_else(|| std::env::var("VERIF_SEED").ok())
        .and_then(|s| s.parse().ok())
        .unwrap_or(20260926);
    let workers: usize = opt("--workers")
        .or_else(|| std::env::var("VERIF_WORKERS").ok())
        .and_then(|s| s.parse().ok())
        .unwrap_or_else(|| std::thread::available_parallelism().map(|n| n.get()).unwrap_or(4).min(16));
    let tier = match opt("--tier").or_else(|| std::env::var("VERIF_TIER").ok()).as_deref() {
        Some("thorough") => Tier::Thorough,
        _ => Tier::Quick,
    };
    let props = props::all();
    match args[1].as_str() {
        "run" => {
            let id = args.get(2).cloned().unwrap_or_else(|| usage());
            let p = props.iter().find(|p| p.id() == id).unwrap_or_else(|| {
                eprintln!("unknown property {}", id);
                std::process::exit(2)
            });
            let cfg = BatchCfg {
                tier,
                seed,
                runs: opt("--runs").and_then(|s| s.parse().ok()),
                workers,
                verif_dir: framework::verif_dir(),
                write_evidence: !args.iter().any(|a| a == "--no-evidence"),
                max_reports: 3,
            };
            if !supervisor::is_child() && std::env::var_os("VERIF_UNSUPERVISED").is_none() {
                std::process::exit(supervisor::run_supervised(p.as_ref(), &args, seed, tier, workers));
            }
            let code = framework::run_batch(p.as_ref(), &cfg);
            std::process::exit(code);
        }
        "exec-run" => {
            // one run of a batch, in its own process (used by the supervisor)
            let id = args.get(2).cloned().unwrap_or_else(|| usage());
            let p = props.iter().find(|p| p.id() == id).unwrap_or_else(|| usage());
            let i: u64 = opt("--index").and_then(|s| s.parse().ok()).unwrap_or(0);
            supervisor::Heartbeat::open().beat(0, i);
            let (_c, r) = framework::run_one(p.as_ref(), seed, i, tier);
            for v in &r.violations {
                println!("violation: {} :: {}", v.key(), v.msg);
            }
            std::process::exit(if r.violations.is_empty() { 0 } else { 1 });
        }
        "replay" => {
            let f = args.get(2).cloned().unwrap_or_else(|| usage());
            if !supervisor::is_child() && std::env::var_os("VERIF_UNSUPERVISED").is_none() {
                std::process::exit(supervisor::replay_supervised(&args, &f));
            }
            supervisor::Heartbeat::open().beat(0, 0);
            std::process::exit(framework::replay(&props, &f));
        }
        "digests" => {
            let id = args.get(2).cloned().unwrap_or_else(|| usage());
            let p = props.iter().find(|p| p.id() == id).unwrap_or_else(|| usage());
            let runs: u64 = opt("--runs").and_then(|s| s.parse().ok()).unwrap_or(512);
            // parallel execution, index-ordered output
            let out = std::sync::Mutex::new(vec![String::new(); runs as usize]);
            let next = std::sync::atomic::AtomicU64::new(0);
            std::thread::scope(|s| {
                for _ in 0..workers {
                    s.spawn(|| loop {
                        let i = next.fetch_add(1, std::sync::atomic::Ordering::Relaxed);
                        if i >= runs {
                            break;
                        }
                        let (_c, r) = framework::run_one(p.as_ref(), seed, i, tier);
                        let keys: Vec<String> = r.violations.iter().map(|v| v.key()).collect();
                        out.lock().unwrap()[i as usize] = format!("{} {} {:?}", i, r.digest.hex(), keys);
                    });
                }
            });
            for l in out.into_inner().unwrap() {
                println!("{}", l);
            }
        }
        "selftest" => {
            std::process::exit(selftest::main(&props, seed));
        }
        _ => usage(),
    }
}
