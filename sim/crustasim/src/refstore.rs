//! RefStore: the trivial set model of a labelled framework. ids = insertion rank over the
//! whole history (never reused); attacks are a set of (id, id).

use crate::refsem::RefAf;
use serde::{Deserialize, Serialize};
use std::collections::{BTreeMap, BTreeSet};

/// A label of the abstract universe; concrete labels are derived through `Lab::mk`.
pub type L = u16;

#[derive(Clone, Copy, Debug, PartialEq, Eq, Hash, Serialize, Deserialize)]
pub enum Upd {
    AddArg(L),
    DelArg(L),
    AddAtt(L, L),
    DelAtt(L, L),
}

#[derive(Clone, Debug, Default, PartialEq, Eq)]
pub struct RefStore {
    pub next_id: usize,
    pub live: BTreeMap<L, usize>,
    pub attacks: BTreeSet<(usize, usize)>,
    /// how often an existing attack was declared again (the ICCMA reader keeps such duplicates in its
    /// per-argument lists; the exp encoder's product runs over list ENTRIES). Workload sizing only.
    pub repeats: BTreeMap<(usize, usize), u32>,
}

#[derive(Clone, Copy, Debug, PartialEq, Eq)]
pub enum Applied {
    Changed,
    NoOp,
    Invalid,
}

impl RefStore {
    pub fn classify(&self, u: &Upd) -> Applied {
        match u {
            Upd::AddArg(l) => {
                if self.live.contains_key(l) {
                    Applied::NoOp
                } else {
                    Applied::Changed
                }
            }
            Upd::DelArg(l) => {
                if self.live.contains_key(l) {
                    Applied::Changed
                } else {
                    Applied::Invalid
                }
            }
            Upd::AddAtt(a, b) => match (self.live.get(a), self.live.get(b)) {
                (Some(x), Some(y)) => {
                    if self.attacks.contains(&(*x, *y)) {
                        Applied::NoOp
                    } else {
                        Applied::Changed
                    }
                }
                _ => Applied::Invalid,
            },
            Upd::DelAtt(a, b) => match (self.live.get(a), self.live.get(b)) {
                (Some(x), Some(y)) => {
                    if self.attacks.contains(&(*x, *y)) {
                        Applied::Changed
                    } else {
                        Applied::Invalid
                    }
                }
                _ => Applied::Invalid,
            },
        }
    }

    pub fn apply(&mut self, u: &Upd) -> Applied {
        let c = self.classify(u);
        if c != Applied::Changed {
            if let (Applied::NoOp, Upd::AddAtt(a, b)) = (c, u) {
                *self.repeats.entry((self.live[a], self.live[b])).or_insert(0) += 1;
            }
            return c;
        }
        match u {
            Upd::AddArg(l) => {
                self.live.insert(*l, self.next_id);
                self.next_id += 1;
            }
            Upd::DelArg(l) => {
                let id = self.live.remove(l).unwrap();
                self.attacks.retain(|(a, b)| *a != id && *b != id);
                self.repeats.retain(|(a, b), _| *a != id && *b != id);
            }
            Upd::AddAtt(a, b) => {
                self.attacks.insert((self.live[a], self.live[b]));
            }
            Upd::DelAtt(a, b) => {
                self.attacks.remove(&(self.live[a], self.live[b]));
                self.repeats.remove(&(self.live[a], self.live[b]));
            }
        }
        c
    }

    /// live arguments as (id, label), in id order
    pub fn args_by_id(&self) -> Vec<(usize, L)> {
        let mut v: Vec<(usize, L)> = self.live.iter().map(|(l, id)| (*id, *l)).collect();
        v.sort();
        v
    }

    pub fn max_id(&self) -> Option<usize> {
        if self.next_id == 0 {
            None
        } else {
            Some(self.next_id - 1)
        }
    }

    /// compact RefAf; position k = k-th live argument in id order. Returns also the labels per position.
    pub fn to_ref(&self) -> (RefAf, Vec<L>, Vec<usize>) {
        let args = self.args_by_id();
        let mut pos = BTreeMap::new();
        for (k, (id, _)) in args.iter().enumerate() {
            pos.insert(*id, k);
        }
        let atts: Vec<(usize, usize)> = self.attacks.iter().map(|(a, b)| (pos[a], pos[b])).collect();
        (
            RefAf::new(args.len(), &atts),
            args.iter().map(|(_, l)| *l).collect(),
            args.iter().map(|(id, _)| *id).collect(),
        )
    }
}
