//! verif_seams — `std::process` / `std::thread` look-alikes on top of shuttle, so that the
//! UNCHANGED body of crustabri's `exec_solver` (spawn child, feed its stdin from a helper
//! thread, wait, hand back its stdout) runs under a scheduler the simulator controls.
//!
//! A "process" is a shuttle thread running a registered program body; pipes are bounded FIFOs on
//! shuttle's Mutex/Condvar (blocking, short reads/writes, EOF, BrokenPipe); `Child::wait` blocks
//! until the program body returned. Shuttle decides who runs at every pipe operation, wait, spawn
//! and exit, and reports a deadlock when nobody can run.
//!
//! Everything else of `std` is re-exported unchanged so that `use verif_seams as std;` inside a
//! function body keeps the rest of that body compiling.

pub use std::{any, borrow, boxed, cell, cmp, collections, convert, env, error, ffi, fmt, fs, hash, io, iter, marker, mem, num, ops, option, path, rc, result, slice, str, string, time, vec};

pub mod sync {
    pub use shuttle::sync::*;
}

use shuttle::sync::{Arc, Condvar, Mutex};
use std::collections::VecDeque;

/// Events the simulated OS records (e.g. a detached thread that panicked, which the real OS
/// lets pass silently).
#[derive(Clone, Debug, PartialEq, Eq)]
pub enum Event {
    Spawned(String),
    ProgramNotFound(String),
    ChildExited(i32),
    ThreadPanicked(String),
    BrokenPipeOnWrite,
}

/// What a registered program gets: its ends of the two pipes.
pub struct ChildIo {
    pub stdin: PipeReader,
    pub stdout: PipeWriter,
    pub args: Vec<String>,
}

pub type ProgramBody = std::sync::Arc<dyn Fn(ChildIo) -> i32 + Send + Sync>;

pub struct World {
    pub programs: Vec<(String, ProgramBody)>,
    pub stdin_capacity: usize,
    pub stdout_capacity: usize,
    pub events: Vec<Event>,
    pub pipe_ops: u64,
    /// (operation tag, bytes) of every pipe operation in scheduling order: 1 write, 2 read, 3 write blocked, 4 read blocked, 5 wait
    pub trace: Vec<(u8, u32)>,
}

std::thread_local! {
    // one world per OS worker thread: all shuttle "threads" of an execution are coroutines of the
    // OS thread that called Runner::run
    static WORLD: std::cell::RefCell<Option<World>> = const { std::cell::RefCell::new(None) };
}

pub fn install_world(w: World) {
    WORLD.with(|c| *c.borrow_mut() = Some(w));
}

pub fn take_world() -> Option<World> {
    WORLD.with(|c| c.borrow_mut().take())
}

fn with_world<R>(f: impl FnOnce(&mut World) -> R) -> Option<R> {
    WORLD.with(|c| c.borrow_mut().as_mut().map(f))
}

fn record(e: Event) {
    with_world(|w| w.events.push(e));
}

// ------------------------------------------------------------------------------------- pipes

struct PipeInner {
    buf: VecDeque<u8>,
    cap: usize,
    writer_closed: bool,
    reader_closed: bool,
}

struct Pipe {
    m: Mutex<PipeInner>,
    cv: Condvar,
}

pub struct PipeWriter(Option<Arc<Pipe>>);
pub struct PipeReader(Option<Arc<Pipe>>);

/// A read end whose pipe is already closed (reads return EOF).
pub fn closed_reader() -> PipeReader {
    PipeReader(None)
}

fn pipe(cap: usize) -> (PipeWriter, PipeReader) {
    let p = Arc::new(Pipe {
        m: Mutex::new(PipeInner { buf: VecDeque::new(), cap: cap.max(1), writer_closed: false, reader_closed: false }),
        cv: Condvar::new(),
    });
    (PipeWriter(Some(p.clone())), PipeReader(Some(p)))
}

impl io::Write for PipeWriter {
    fn write(&mut self, data: &[u8]) -> io::Result<usize> {
        let p = match &self.0 {
            Some(p) => p,
            None => return Ok(data.len()), // /dev/null
        };
        if data.is_empty() {
            return Ok(0);
        }
        with_world(|w| w.pipe_ops += 1);
        let mut g = p.m.lock().unwrap();
        loop {
            if g.reader_closed {
                drop(g);
                record(Event::BrokenPipeOnWrite);
                return Err(io::Error::new(io::ErrorKind::BrokenPipe, "simulated EPIPE"));
            }
            let space = g.cap - g.buf.len();
            if space > 0 {
                let n = space.min(data.len());
                g.buf.extend(&data[..n]);
                p.cv.notify_all();
                with_world(|w| w.trace.push((1, n as u32)));
                return Ok(n);
            }
            with_world(|w| w.trace.push((3, 0)));
            g = p.cv.wait(g).unwrap();
        }
    }
    fn flush(&mut self) -> io::Result<()> {
        Ok(())
    }
}

impl Drop for PipeWriter {
    fn drop(&mut self) {
        if std::thread::panicking() {
            return; // the execution is being torn down (e.g. after a detected deadlock)
        }
        if let Some(p) = &self.0 {
            if let Ok(mut g) = p.m.lock() {
                g.writer_closed = true;
                p.cv.notify_all();
            }
        }
    }
}

impl io::Read for PipeReader {
    fn read(&mut self, out: &mut [u8]) -> io::Result<usize> {
        let p = match &self.0 {
            Some(p) => p,
            None => return Ok(0),
        };
        if out.is_empty() {
            return Ok(0);
        }
        with_world(|w| w.pipe_ops += 1);
        let mut g = p.m.lock().unwrap();
        loop {
            if !g.buf.is_empty() {
                let n = g.buf.len().min(out.len());
                for b in out.iter_mut().take(n) {
                    *b = g.buf.pop_front().unwrap();
                }
                p.cv.notify_all();
                with_world(|w| w.trace.push((2, n as u32)));
                return Ok(n);
            }
            if g.writer_closed {
                with_world(|w| w.trace.push((2, 0)));
                return Ok(0);
            }
            with_world(|w| w.trace.push((4, 0)));
            g = p.cv.wait(g).unwrap();
        }
    }
}

impl Drop for PipeReader {
    fn drop(&mut self) {
        if std::thread::panicking() {
            return;
        }
        if let Some(p) = &self.0 {
            if let Ok(mut g) = p.m.lock() {
                g.reader_closed = true;
                p.cv.notify_all();
            }
        }
    }
}

// ----------------------------------------------------------------------------------- process

pub mod process {
    use super::*;

    #[derive(Clone, Copy, Debug, PartialEq, Eq)]
    enum StdioKind {
        Inherit,
        Null,
        Piped,
    }

    #[derive(Debug)]
    pub struct Stdio(StdioKind);

    impl Stdio {
        pub fn piped() -> Stdio {
            Stdio(StdioKind::Piped)
        }
        pub fn null() -> Stdio {
            Stdio(StdioKind::Null)
        }
        pub fn inherit() -> Stdio {
            Stdio(StdioKind::Inherit)
        }
    }

    #[derive(Clone, Copy, Debug, PartialEq, Eq)]
    pub struct ExitStatus(i32);

    impl ExitStatus {
        pub fn success(&self) -> bool {
            self.0 == 0
        }
        pub fn code(&self) -> Option<i32> {
            Some(self.0)
        }
    }

    pub struct Output {
        pub status: ExitStatus,
        pub stdout: Vec<u8>,
        pub stderr: Vec<u8>,
    }

    pub struct ChildStdin(PipeWriter);
    pub struct ChildStdout(PipeReader);
    pub struct ChildStderr(());

    impl io::Write for ChildStdin {
        fn write(&mut self, b: &[u8]) -> io::Result<usize> {
            self.0.write(b)
        }
        fn flush(&mut self) -> io::Result<()> {
            self.0.flush()
        }
    }
    impl io::Read for ChildStdout {
        fn read(&mut self, b: &mut [u8]) -> io::Result<usize> {
            self.0.read(b)
        }
    }

    struct ExitCell {
        m: Mutex<Option<i32>>,
        cv: Condvar,
    }

    pub struct Child {
        pub stdin: Option<ChildStdin>,
        pub stdout: Option<ChildStdout>,
        pub stderr: Option<ChildStderr>,
        exit: Arc<ExitCell>,
    }

    impl Child {
        pub fn wait(&mut self) -> io::Result<ExitStatus> {
            // like std: the child's stdin, if still held, is closed before waiting
            drop(self.stdin.take());
            with_world(|w| w.trace.push((5, 0)));
            let mut g = self.exit.m.lock().unwrap();
            loop {
                if let Some(c) = *g {
                    return Ok(ExitStatus(c));
                }
                g = self.exit.cv.wait(g).unwrap();
            }
        }
        pub fn try_wait(&mut self) -> io::Result<Option<ExitStatus>> {
            shuttle::thread::yield_now();
            Ok(self.exit.m.lock().unwrap().map(ExitStatus))
        }
        pub fn kill(&mut self) -> io::Result<()> {
            Ok(())
        }
        pub fn id(&self) -> u32 {
            4242
        }
        pub fn wait_with_output(mut self) -> io::Result<Output> {
            use io::Read;
            drop(self.stdin.take());
            let mut out = vec![];
            if let Some(mut s) = self.stdout.take() {
                s.read_to_end(&mut out)?;
            }
            let status = self.wait()?;
            Ok(Output { status, stdout: out, stderr: vec![] })
        }
    }

    pub struct Command {
        program: String,
        args: Vec<String>,
        stdin: StdioKind,
        stdout: StdioKind,
    }

    impl Command {
        pub fn new<S: AsRef<std::ffi::OsStr>>(program: S) -> Command {
            Command { program: program.as_ref().to_string_lossy().to_string(), args: vec![], stdin: StdioKind::Inherit, stdout: StdioKind::Inherit }
        }
        pub fn arg<S: AsRef<std::ffi::OsStr>>(&mut self, a: S) -> &mut Command {
            self.args.push(a.as_ref().to_string_lossy().to_string());
            self
        }
        pub fn args<I, S>(&mut self, args: I) -> &mut Command
        where
            I: IntoIterator<Item = S>,
            S: AsRef<std::ffi::OsStr>,
        {
            for a in args {
                self.args.push(a.as_ref().to_string_lossy().to_string());
            }
            self
        }
        pub fn env<K: AsRef<std::ffi::OsStr>, V: AsRef<std::ffi::OsStr>>(&mut self, _k: K, _v: V) -> &mut Command {
            self
        }
        pub fn current_dir<P: AsRef<std::path::Path>>(&mut self, _p: P) -> &mut Command {
            self
        }
        pub fn stdin<T: Into<Stdio>>(&mut self, cfg: T) -> &mut Command {
            self.stdin = cfg.into().0;
            self
        }
        pub fn stdout<T: Into<Stdio>>(&mut self, cfg: T) -> &mut Command {
            self.stdout = cfg.into().0;
            self
        }
        pub fn stderr<T: Into<Stdio>>(&mut self, _cfg: T) -> &mut Command {
            self
        }
        pub fn spawn(&mut self) -> io::Result<Child> {
            let found = with_world(|w| {
                (
                    w.programs.iter().find(|(n, _)| n == &self.program).map(|(_, b)| b.clone()),
                    w.stdin_capacity,
                    w.stdout_capacity,
                )
            });
            let (body, cin, cout) = match found {
                Some((Some(b), cin, cout)) => (b, cin, cout),
                _ => {
                    record(Event::ProgramNotFound(self.program.clone()));
                    return Err(io::Error::new(io::ErrorKind::NotFound, "simulated ENOENT"));
                }
            };
            record(Event::Spawned(self.program.clone()));
            let (stdin_w, stdin_r) = if self.stdin == StdioKind::Piped {
                let (w, r) = pipe(cin);
                (Some(w), r)
            } else {
                (None, PipeReader(None))
            };
            let (stdout_w, stdout_r) = if self.stdout == StdioKind::Piped {
                let (w, r) = pipe(cout);
                (w, Some(r))
            } else {
                (PipeWriter(None), None)
            };
            let exit = Arc::new(ExitCell { m: Mutex::new(None), cv: Condvar::new() });
            let exit2 = exit.clone();
            let args = self.args.clone();
            shuttle::thread::spawn(move || {
                let io = ChildIo { stdin: stdin_r, stdout: stdout_w, args };
                let code = match std::panic::catch_unwind(std::panic::AssertUnwindSafe(|| body(io))) {
                    Ok(c) => c,
                    Err(_) => 134,
                };
                // the pipe ends owned by the body were dropped when it returned: EOF / EPIPE for the peer
                record(Event::ChildExited(code));
                let mut g = exit2.m.lock().unwrap();
                *g = Some(code);
                exit2.cv.notify_all();
            });
            Ok(Child { stdin: stdin_w.map(ChildStdin), stdout: stdout_r.map(ChildStdout), stderr: None, exit })
        }
        pub fn output(&mut self) -> io::Result<Output> {
            self.stdout = StdioKind::Piped;
            self.spawn()?.wait_with_output()
        }
        pub fn status(&mut self) -> io::Result<ExitStatus> {
            self.spawn()?.wait()
        }
    }
}

// ------------------------------------------------------------------------------------ thread

pub mod thread {
    use super::*;

    pub struct JoinHandle<T>(shuttle::thread::JoinHandle<Option<T>>);

    impl<T> JoinHandle<T> {
        pub fn join(self) -> std::thread::Result<T> {
            match self.0.join() {
                Ok(Some(v)) => Ok(v),
                Ok(None) => Err(Box::new("thread panicked")),
                Err(e) => Err(e),
            }
        }
    }

    /// A panic in a (possibly detached) thread is recorded as an event, not an execution failure —
    /// exactly as the OS lets it pass.
    pub fn spawn<F, T>(f: F) -> JoinHandle<T>
    where
        F: FnOnce() -> T + Send + 'static,
        T: Send + 'static,
    {
        JoinHandle(shuttle::thread::spawn(move || match std::panic::catch_unwind(std::panic::AssertUnwindSafe(f)) {
            Ok(v) => Some(v),
            Err(p) => {
                let t = p.downcast_ref::<String>().cloned().or_else(|| p.downcast_ref::<&str>().map(|s| s.to_string())).unwrap_or_default();
                record(Event::ThreadPanicked(t));
                None
            }
        }))
    }

    pub use shuttle::thread::{current, yield_now};
    pub fn sleep(d: std::time::Duration) {
        shuttle::thread::sleep(d)
    }
}
